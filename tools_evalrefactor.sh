#!/bin/bash
# usage: tools_evalrefactor.sh <refactor dir> [check ids; default all 19]   (harness-side helper, not a registered command)
# A behaviour-preserving refactor must keep every check silent: apply the patch in a scratch worktree, run the
# repository's suite, then every quick check against the patched worktree (VERIF_REPO).  Writes <dir>/eval.out.
set -u
HERE=$(cd "$(dirname "$0")" && pwd)
M=$(cd "$1" && pwd); shift
WT=/tmp/wt/evalr_$$
CHECKS=${*:-C01 C02 C03 C04 C05 C06 C07 C08 C09 C10 C11 C12 C13 C14 C15 C16 C17 C18 C19}
{
BASE=${BASE:-$(cat $M/BASE 2>/dev/null || echo HEAD)}
git -C /repo worktree add -q --detach $WT $BASE || exit 9
echo "base: $BASE ($(git -C $WT rev-parse --short HEAD))"
cd $WT
if ! git apply $M/patch.diff; then echo "PATCH-DOES-NOT-APPLY"; cd /; git -C /repo worktree remove --force $WT; exit 8; fi
T=$(/venv/bin/python -m pytest -q -p no:cacheprovider -x --timeout=600 2>&1 | tail -1)
echo "tests-with-change: $T"
cd $HERE
for c in $CHECKS; do
  VERIF_REPO=$WT VERIF_DUMP=/tmp/evalr_$$_$c.txt ./run check $c ${TIER:-quick} > /tmp/evalr_$$_$c.log 2>&1
  echo "check $c exit=$? viol=$(grep -c '^VIOLATION' /tmp/evalr_$$_$c.log) known=$(grep -c '^KNOWN-FINDING' /tmp/evalr_$$_$c.log) :: $(grep -v '^EXPLORER' /tmp/evalr_$$_$c.log | tail -1 | cut -c1-160)"
  head -3 /tmp/evalr_$$_$c.txt 2>/dev/null | cut -c1-300
  grep EXPLORER-ERROR /tmp/evalr_$$_$c.log | head -2 | cut -c1-400
  rm -f /tmp/evalr_$$_$c.txt /tmp/evalr_$$_$c.log
done
cd /; git -C /repo worktree remove --force $WT
} 2>&1 | tee $M/eval.out
