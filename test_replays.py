"""Plain pytest wrapper around the committed replay artefacts (no search, no explorer):

    cd /verif && PYTHONHASHSEED=0 /venv/bin/python -m pytest -q -p no:cacheprovider test_replays.py

Each artefact under findings/ (open known findings) and replays/ (whatever the last runs wrote) is
re-executed on the current /repo tree exactly as recorded - sequential histories are plain calls,
schedules are driven by the baton scheduler following the recorded choice list.  For an *open*
finding the test asserts that the recorded violation still reproduces (when it stops reproducing,
the finding entry should be turned into a `fixed` one); for any other artefact it asserts that
it does not.
"""
import glob
import json
import os
import subprocess

import pytest

HERE = os.path.dirname(os.path.abspath(__file__))
OPEN = sorted(glob.glob(os.path.join(HERE, "findings", "*.json")))
OTHER = sorted(glob.glob(os.path.join(HERE, "replays", "*", "*.json")))


def _replay(path):
    # a fresh interpreter per artefact: SCHED replays interpose the lock factory before the library is imported
    p = subprocess.run([os.path.join(HERE, "run"), "replay", path], capture_output=True, text=True, timeout=600)
    return p.returncode, p.stdout + p.stderr


@pytest.mark.parametrize("path", OPEN, ids=[os.path.basename(p) for p in OPEN])
def test_open_finding_still_reproduces(path):
    rc, out = _replay(path)
    assert rc == 1 and "VIOLATION property=%s" % json.load(open(path))["property"] in out, out


@pytest.mark.parametrize("path", OTHER, ids=[os.path.relpath(p, HERE) for p in OTHER])
def test_recorded_violation_is_gone(path):
    rc, out = _replay(path)
    assert rc == 0, out
