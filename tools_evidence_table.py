"""Harness-side helper: print a markdown table of what the committed evidence files say (python3 tools_evidence_table.py)."""
import importlib
import json
import os
import sys

here = os.path.dirname(os.path.abspath(__file__))
sys.path.insert(0, here)
print("| Prop | Level | Tier | Explored (this run) | Exhaustive within bounds | Known findings reproduced | Wall | Bounds |")
print("|---|---|---|---|---|---|---|---|")
for i in range(1, 20):
    pid = "C%02d" % i
    p = os.path.join(here, "evidence", pid + ".json")
    if not os.path.exists(p):
        print("| %s | - | - | (no evidence file) | | | | |" % pid)
        continue
    e = json.load(open(p))
    c = e["coverage"]
    if e["level"] == "model_checking":
        what = "%s states, %s transitions (= traces validated on the implementation)" % (c.get("states"), c.get("transitions"))
        if c.get("evaluations") and c.get("evaluations") != c.get("transitions"):
            what += ", %s executions" % c.get("evaluations")
    else:
        what = "%s cases, %s distinct non-trivial" % (c.get("evaluations"), c.get("distinct_nontrivial"))
    print("| %s | %s | %s | %s | %s | %s | %ss | %s |" % (pid, e["level"], e["tier"], what, c.get("exhaustive"),
                                                    ", ".join(c.get("known_findings_reproduced", [])) or "-", e["wall_s"],
                                                    (c.get("bounds") or "").replace("|", "/")))
