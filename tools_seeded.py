"""Harness-side helper: fold eval.out into seeded/*/meta.json and print the DESIGN table (python3 tools_seeded.py)."""
import json
import os
import re

base = os.path.join(os.path.dirname(os.path.abspath(__file__)), "seeded")
NOTES = {}
try:
    NOTES = json.load(open(os.path.join(base, "NOTES.json")))
except Exception:
    pass
rows = []
for n in sorted(os.listdir(base)):
    d = os.path.join(base, n)
    if not os.path.isdir(d):
        continue
    try:
        meta = json.load(open(os.path.join(d, "meta.json")))
    except Exception:
        meta = {"property": n.split("-")[0], "summary": "(sub-agent meta.json unreadable)"}
    evp = os.path.join(d, "eval.out")
    if os.path.exists(evp):
        ev = open(evp).read()
        checks = re.findall(r"check (C\d+) exit=(\d) viol=(\d+)", ev)
        prev = meta.get("confirmed_by_builder", {})
        tests = (re.findall(r"tests-with-change: (.*)", ev) or ["?"])[0]
        if "passed" not in tests and "passed" in prev.get("tests_with_change", ""):
            tests = prev["tests_with_change"]
        if n in NOTES.get("retested", {}):
            tests = NOTES["retested"][n]
        meta["confirmed_by_builder"] = {
            "how": "tools_evalmut.sh: patch applied in a scratch worktree of /repo HEAD; full test suite; demo with and "
                   "without the change; then the listed checks (quick tier) run with VERIF_REPO=<patched worktree>",
            "tests_with_change": tests,
            "demo": (re.findall(r"(demo-with-change: .*)", ev) or ["?"])[0],
            "checks": [{"check": c, "exit": int(e), "violation_lines": int(v)} for c, e, v in checks]}
        json.dump(meta, open(os.path.join(d, "meta.json"), "w"), indent=1)
    cb = meta.get("confirmed_by_builder", {})
    caught = [c["check"] for c in cb.get("checks", []) if c["exit"] == 1]
    missed = [c["check"] for c in cb.get("checks", []) if c["exit"] == 0]
    rows.append((n, meta.get("property", "?"), (meta.get("summary") or "")[:150].replace("|", "/").replace("\n", " "),
                 (meta.get("needs_to_manifest") or "")[:120].replace("|", "/").replace("\n", " "),
                 ", ".join(caught) or "-", ", ".join(missed) or "-", NOTES.get("strengthened", {}).get(n, "")))
print("| Seeded change | Prop | What was changed | Needs | Caught by | Not caught by | Check strengthened for it |")
print("|---|---|---|---|---|---|---|")
for r in rows:
    print("| %s | %s | %s | %s | %s | %s | %s |" % r)
