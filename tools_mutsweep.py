"""Harness-side helper (not a registered command): a mechanical mutation sweep used to *evaluate* the checks.

    python3 tools_mutsweep.py gen   OUT.json                      # enumerate mutants of the library source
    python3 tools_mutsweep.py tests OUT.json [-j 12]              # stage 1: which mutants keep the repository's suite green
    python3 tools_mutsweep.py checks OUT.json [--limit N]         # stage 2: run the relevant quick checks on the survivors

Nothing here decides a property: it measures which realistic-looking single-site changes that the
repository's own 578 tests do not notice are noticed by the checks.  /repo itself is never touched:
every mutant lives in a scratch worktree under /tmp/wt (removed at the end) and the checks are
pointed at it with VERIF_REPO.

Operators (one site per mutant): delete a simple statement (-> pass), negate an if/while/ternary
condition, swap a comparison operator, swap True/False, swap and/or, replace `x += n` by `x -= n`,
turn `with <lock-ish>:` into `if True:`, drop a `not`.
"""
import ast
import json
import os
import subprocess
import sys
import time
from concurrent.futures import ThreadPoolExecutor

REPO = "/repo"
FILES = ["synced_collections/data_types/synced_collection.py", "synced_collections/data_types/synced_dict.py",
         "synced_collections/data_types/synced_list.py", "synced_collections/data_types/attr_dict.py",
         "synced_collections/backends/collection_json.py", "synced_collections/buffers/buffered_collection.py",
         "synced_collections/buffers/file_buffered_collection.py",
         "synced_collections/buffers/serialized_file_buffered_collection.py",
         "synced_collections/buffers/memory_buffered_collection.py", "synced_collections/utils.py",
         "synced_collections/validators.py"]
RELEVANT = {
    "synced_collection.py": ["C16", "C11", "C01", "C17", "C12", "C03", "C10", "C04", "C02", "C18", "C09", "C14", "C05", "C19"],
    "synced_dict.py": ["C16", "C11", "C01", "C03", "C04", "C02", "C18", "C09", "C05", "C14", "C10"],
    "synced_list.py": ["C16", "C11", "C01", "C03", "C04", "C02", "C18", "C09", "C05", "C14", "C10"],
    "attr_dict.py": ["C11", "C18", "C03", "C01"],
    "collection_json.py": ["C01", "C17", "C12", "C08", "C10", "C18", "C09", "C14", "C02"],
    "buffered_collection.py": ["C07", "C17", "C15", "C05", "C06", "C10", "C13", "C14"],
    "file_buffered_collection.py": ["C07", "C17", "C15", "C05", "C06", "C10", "C13", "C08", "C14"],
    "serialized_file_buffered_collection.py": ["C07", "C17", "C15", "C05", "C06", "C10", "C13", "C08", "C14", "C12"],
    "memory_buffered_collection.py": ["C07", "C17", "C15", "C05", "C06", "C10", "C13", "C08", "C14"],
    "utils.py": ["C11", "C12", "C19", "C07", "C05", "C15", "C10", "C01"],
    "validators.py": ["C11", "C12", "C19", "C01"],
}
FIRST_BY_FUNC = [
    (("__iter__", "__call__", "__eq__", "__repr__", "__str__", "keys", "values", "items", "get", "__getitem__", "__len__",
      "__contains__", "_load", "__reversed__", "__lt__", "__le__", "__gt__", "__ge__"), ["C02", "C03", "C17"]),
    (("_validate", "__init__", "_from_base", "is_base_type"), ["C11", "C16", "C18", "C12"]),
    (("_acquire_locks", "_release_locks", "__enter__", "__exit__", "_thread_lock", "filename", "_lock_id",
      "enable_multithreading", "disable_multithreading", "__init_subclass__"), ["C10", "C09", "C08"]),
    (("_update",), ["C02", "C04", "C11"]),
    (("__getattr__", "__setattr__", "__delattr__"), ["C18"]),
]
CMP = {ast.Lt: "<=", ast.LtE: "<", ast.Gt: ">=", ast.GtE: ">", ast.Eq: "!=", ast.NotEq: "==", ast.Is: "is not",
       ast.IsNot: "is", ast.In: "not in", ast.NotIn: "in"}


def seg(src, node):
    return ast.get_source_segment(src, node)


def replace(src, node, new):
    lines = src.split("\n")
    l0, c0, l1, c1 = node.lineno - 1, node.col_offset, node.end_lineno - 1, node.end_col_offset
    # col offsets are in utf8 bytes; the library source is ASCII in code positions
    before = lines[l0][:c0]
    after = lines[l1][c1:]
    mid = new
    return "\n".join(lines[:l0] + [before + mid + after] + lines[l1 + 1:])


def in_docstring_or_abstract(fn):
    return any(isinstance(d, ast.Name) and d.id == "abstractmethod" for d in getattr(fn, "decorator_list", []))


def gen_file(rel):
    src = open(os.path.join(REPO, rel)).read()
    tree = ast.parse(src)
    out = []
    parents = {}
    for p in ast.walk(tree):
        for c in ast.iter_child_nodes(p):
            parents[c] = p

    def func_of(n):
        while n in parents:
            n = parents[n]
            if isinstance(n, (ast.FunctionDef, ast.AsyncFunctionDef)):
                return n
        return None

    def add(node, new, op):
        f = func_of(node)
        if f is None or in_docstring_or_abstract(f):
            return
        try:
            m = replace(src, node, new)
            ast.parse(m)
        except Exception:
            return
        if m != src:
            out.append({"file": rel, "line": node.lineno, "func": f.name, "op": op,
                        "old": (seg(src, node) or "")[:120], "new": new[:120], "src": m})

    for n in ast.walk(tree):
        if isinstance(n, ast.Expr) and isinstance(n.value, ast.Call):
            add(n, "pass", "del-call")
        elif isinstance(n, (ast.Assign, ast.AugAssign)) and not isinstance(parents.get(n), (ast.ClassDef, ast.Module)):
            add(n, "pass", "del-assign")
            if isinstance(n, ast.AugAssign) and isinstance(n.op, (ast.Add, ast.Sub)):
                new = "%s %s= %s" % (seg(src, n.target), "-" if isinstance(n.op, ast.Add) else "+", seg(src, n.value))
                add(n, new, "augassign-sign")
        elif isinstance(n, ast.Delete):
            add(n, "pass", "del-del")
        elif isinstance(n, ast.Raise):
            add(n, "pass", "del-raise")
        elif isinstance(n, (ast.If, ast.While, ast.IfExp)):
            add(n.test, "(not (%s))" % seg(src, n.test), "negate-cond")
        elif isinstance(n, ast.Compare) and len(n.ops) == 1 and type(n.ops[0]) in CMP:
            new = "%s %s %s" % (seg(src, n.left), CMP[type(n.ops[0])], seg(src, n.comparators[0]))
            add(n, new, "swap-cmp")
        elif isinstance(n, ast.Constant) and isinstance(n.value, bool):
            add(n, "False" if n.value else "True", "flip-bool")
        elif isinstance(n, ast.BoolOp) and len(n.values) == 2:
            new = "%s %s %s" % (seg(src, n.values[0]), "or" if isinstance(n.op, ast.And) else "and", seg(src, n.values[1]))
            add(n, "(" + new + ")", "swap-andor")
        elif isinstance(n, ast.UnaryOp) and isinstance(n.op, ast.Not):
            add(n, "(%s)" % seg(src, n.operand), "drop-not")
        elif isinstance(n, ast.With):
            ctx = seg(src, n.items[0].context_expr) or ""
            if "lock" in ctx.lower() or "_load_and_save" in ctx or "_suspend_sync" in ctx:
                # `with X:` -> `if True:` keeps the body, drops the context
                lines = src.split("\n")
                l0 = n.lineno - 1
                hdr_end = n.body[0].lineno - 1
                if hdr_end == l0 + 1 or n.body[0].lineno == n.lineno + 1:
                    indent = lines[l0][:n.col_offset]
                    m = "\n".join(lines[:l0] + [indent + "if True:"] + lines[n.body[0].lineno - 1:])
                    try:
                        ast.parse(m)
                        f = func_of(n)
                        if f is not None:
                            out.append({"file": rel, "line": n.lineno, "func": f.name, "op": "drop-with",
                                        "old": lines[l0].strip()[:120], "new": "if True:", "src": m})
                    except Exception:
                        pass
    return out


def cmd_gen(path):
    muts = []
    for rel in FILES:
        muts += gen_file(rel)
    seen, uniq = set(), []
    for m in muts:
        k = (m["file"], m["src"])
        if k in seen:
            continue
        seen.add(k)
        m["id"] = len(uniq)
        uniq.append(m)
    json.dump({"head": subprocess.check_output(["git", "-C", REPO, "rev-parse", "HEAD"], text=True).strip(),
               "mutants": uniq}, open(path, "w"))
    by = {}
    for m in uniq:
        by[os.path.basename(m["file"])] = by.get(os.path.basename(m["file"]), 0) + 1
    print(len(uniq), "mutants", by)


def cmd_rebase(path):
    """Regenerate the mutants on the current HEAD and carry the stage-1/2 results over (same file, function,
    operator, old and new text, same ordinal among identical ones)."""
    old = json.load(open(path))
    muts = []
    for rel in FILES:
        muts += gen_file(rel)

    def keyed(ms):
        cnt, out = {}, {}
        for m in ms:
            k0 = (m["file"], m["func"], m["op"], m["old"], m["new"])
            cnt[k0] = cnt.get(k0, 0) + 1
            out[k0 + (cnt[k0],)] = m
        return out

    ko = keyed(old["mutants"])
    seen, uniq = set(), []
    for k, m in keyed(muts).items():
        if (m["file"], m["src"]) in seen:
            continue
        seen.add((m["file"], m["src"]))
        m["id"] = len(uniq)
        if k in ko:
            for f in ("tests", "tests_line", "tests_s"):
                if f in ko[k]:
                    m[f] = ko[k][f]
        uniq.append(m)
    head = subprocess.check_output(["git", "-C", REPO, "rev-parse", "HEAD"], text=True).strip()
    json.dump({"head": head, "mutants": uniq}, open(path, "w"))
    print(len(uniq), "mutants on", head[:8], "-", sum(1 for m in uniq if "tests" in m), "carry a stage-1 result")


def mkwt(name):
    wt = "/tmp/wt/" + name
    subprocess.run(["git", "-C", REPO, "worktree", "remove", "--force", wt], capture_output=True)
    subprocess.check_call(["git", "-C", REPO, "worktree", "add", "-q", "--detach", wt, "HEAD"])
    return wt


def rmwt(wt):
    subprocess.run(["git", "-C", REPO, "worktree", "remove", "--force", wt], capture_output=True)


def cmd_tests(path, jobs):
    doc = json.load(open(path))
    todo = [m for m in doc["mutants"] if "tests" not in m]
    print("stage 1:", len(todo), "mutants to test with", jobs, "workers", flush=True)
    import queue
    wts = queue.Queue()
    for j in range(jobs):
        wts.put(mkwt("ms_%d" % j))
    done = [0]

    def one(m):
        wt = wts.get()
        f = os.path.join(wt, m["file"])
        orig = open(f).read()
        try:
            open(f, "w").write(m["src"])
            env = dict(os.environ, PYTHONDONTWRITEBYTECODE="1")
            t0 = time.time()
            try:
                p = subprocess.run(["/venv/bin/python", "-m", "pytest", "-q", "-p", "no:cacheprovider", "-x", "--timeout=180"],
                                   cwd=wt, capture_output=True, text=True, timeout=1500, env=env)
                last = [l for l in p.stdout.strip().split("\n") if l.strip()][-1:] or ["?"]
                m["tests"] = "pass" if p.returncode == 0 else "fail"
                m["tests_line"] = last[0][:200]
            except subprocess.TimeoutExpired:
                m["tests"] = "fail"
                m["tests_line"] = "timeout"
            m["tests_s"] = round(time.time() - t0, 1)
        finally:
            open(f, "w").write(orig)
            wts.put(wt)
        done[0] += 1
        if done[0] % 20 == 0:
            surv = sum(1 for x in doc["mutants"] if x.get("tests") == "pass")
            print("  %d/%d tested, %d survive the suite so far" % (done[0], len(todo), surv), flush=True)
            json.dump(doc, open(path, "w"))

    with ThreadPoolExecutor(jobs) as ex:
        list(ex.map(one, todo))
    json.dump(doc, open(path, "w"))
    while not wts.empty():
        rmwt(wts.get())
    surv = [m for m in doc["mutants"] if m.get("tests") == "pass"]
    print("suite-surviving mutants:", len(surv), "of", len(doc["mutants"]))


def cmd_checks(path, limit, allchecks=False, maxchecks=0, files=None):
    doc = json.load(open(path))
    surv = [m for m in doc["mutants"] if m.get("tests") == "pass" and "killed_by" not in m
            and (not files or any(f in m["file"] for f in files))]
    if limit:
        surv = surv[:limit]
    wt = mkwt("ms_checks")
    verif = os.path.dirname(os.path.abspath(__file__))
    try:
        for n, m in enumerate(surv):
            f = os.path.join(wt, m["file"])
            orig = open(f).read()
            open(f, "w").write(m["src"])
            killed, ran = None, []
            try:
                order = list(RELEVANT[os.path.basename(m["file"])])
                first = []
                if m["op"] == "drop-with":
                    first += ["C09", "C13", "C10"]
                for funcs, cs in FIRST_BY_FUNC:
                    if m["func"] in funcs:
                        first += cs
                oldtxt = m.get("old", "")
                if "_validate" in oldtxt or "validator" in m["func"] or "require_string_key" in m["func"]:
                    first = ["C11", "C12", "C19"] + first
                if m["func"] in ("__lt__", "__le__", "__gt__", "__ge__"):
                    first = ["C03"] + first
                if m["op"] == "drop-with" and ("_load_and_save" in oldtxt or "lock" in oldtxt.lower()):
                    first = ["C09", "C10", "C13"] + first
                if m["func"] == "_save_to_resource":
                    first = ["C08", "C01"] + first
                if m["func"] == "filename":
                    first = ["C10"] + first
                if m["func"] in ("get_type",):
                    first = ["C19"] + first
                if m["func"] in ("default",):
                    first = ["C12", "C19"] + first
                if m["func"] in ("clear", "reverse", "reset", "pop") and m["op"] != "drop-with":
                    first = ["C01", "C03", "C04"] + first
                if m["func"] == "_update":
                    first = ["C02", "C01", "C11"] + first
                first = [c for i, c in enumerate(first) if c in order + ["C19", "C12", "C13", "C04"] and c not in first[:i]]
                order = first + [c for c in order if c not in first]
                if maxchecks:
                    order = order[:maxchecks]
                if allchecks:
                    order = order + [c for c in ["C%02d" % i for i in range(1, 20)] if c not in order]
                for c in order:
                    env = dict(os.environ, VERIF_REPO=wt, VERIF_CONFIRM="0", VERIF_FAILFAST="1")
                    t0 = time.time()
                    try:
                        p = subprocess.run([os.path.join(verif, "run"), "check", c, "quick"], cwd=verif, capture_output=True,
                                           text=True, env=env, timeout=3600)
                        rc = p.returncode
                        tail = (p.stdout.strip().split("\n") or ["?"])[-1][:200]
                        err = [l for l in p.stderr.split("\n") if "EXPLORER-ERROR" in l][:1]
                    except subprocess.TimeoutExpired:
                        rc, tail, err = 124, "timeout", []
                    ran.append({"check": c, "rc": rc, "s": round(time.time() - t0), "tail": tail, "err": err[0][:300] if err else None})
                    if rc != 0:
                        killed = c if rc == 1 else "%s(rc=%d)" % (c, rc)
                        break
            finally:
                open(f, "w").write(orig)
            m["killed_by"] = killed
            m["ran"] = ran
            json.dump(doc, open(path, "w"))
            print("[%d/%d] #%d %s:%d %s %s `%s` -> %s" % (n + 1, len(surv), m["id"], os.path.basename(m["file"]), m["line"], m["func"],
                                                        m["op"], m["old"][:50], killed or "SURVIVED"), flush=True)
    finally:
        rmwt(wt)


if __name__ == "__main__":
    a = sys.argv[1:]
    if a[0] == "gen":
        cmd_gen(a[1])
    elif a[0] == "rebase":
        cmd_rebase(a[1])
    elif a[0] == "tests":
        cmd_tests(a[1], int(a[a.index("-j") + 1]) if "-j" in a else 12)
    elif a[0] == "checks":
        cmd_checks(a[1], int(a[a.index("--limit") + 1]) if "--limit" in a else 0, "--all" in a,
                   int(a[a.index("--max-checks") + 1]) if "--max-checks" in a else 0,
                   a[a.index("--files") + 1].split(",") if "--files" in a else None)
