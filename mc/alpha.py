"""Alphabet building blocks shared by the SEQ checks (small finite menus, simplest first)."""
from . import model

KEYS = ("a", "b")
SCALARS = (0, 1, "s", None, True, 1.5)
CONTAINERS = ({}, [], {"a": 0}, [0], {"a": {"b": [0]}}, [[0], {"a": 0}])
VALUES_FULL = SCALARS + CONTAINERS
VALUES_CORE = (0, "s", None, {}, {"a": {"b": [0]}}, [[0], {"a": 0}])
VALUES_MIN = (0, None, {"a": {"b": [0]}}, [[0], {"a": 0}])

INIT_DICT = {"a": {"b": [0, {"c": 0}]}, "k": 0}
INIT_LIST = [0, [1, {"a": 0}], {"b": [0]}]


def init_for(kind_):
    return INIT_DICT if kind_ == "dict" else INIT_LIST


def nav_events(ref, max_depth=3, max_handles=6):
    """Retain a handle to every container child not yet held (by the same object)."""
    out = []
    held = {(h["obj"], h["path"]) for h in ref.handles if h["attached"]}
    if len(held) >= max_handles:
        return out
    for i in ref.attached_handles():
        hd = ref.handles[i]
        if len(hd["path"]) >= max_depth:
            continue
        node = ref.node(i)
        items = node.items() if isinstance(node, dict) else enumerate(node)
        for k, v in items:
            if isinstance(v, (dict, list)) and (hd["obj"], hd["path"] + (k,)) not in held:
                out.append(("nav", i, k))
    return out


def dict_mutators(h, values, keys=KEYS, rich=True):
    ev = []
    for k in keys:
        for v in values:
            ev.append(("op", h, "setitem", (k, v)))
    for k in keys:
        ev.append(("op", h, "delitem", (k,)))
        ev.append(("op", h, "pop", (k,)))
    ev.append(("op", h, "pop", ("a", 7)))
    ev.append(("op", h, "popitem", ()))
    ev.append(("op", h, "clear", ()))
    for v in values[:3]:
        ev.append(("op", h, "setdefault", ("a", v)))
        ev.append(("op", h, "setdefault", ("n", v)))
    ev.append(("op", h, "setdefault", ("m",)))
    for v in values:
        ev.append(("op", h, "update", ({"a": v}, {})))
    if rich:
        ev.append(("op", h, "update", ([("b", 1), ("c", {"x": []})], {})))
        ev.append(("op", h, "update", (None, {"b": [1], "z": 0})))
        ev.append(("op", h, "update", ({"a": {"b": 5}}, {"a": {"q": 1}})))
        ev.append(("op", h, "update", (("#iter", [("#tuple", ["g", 1])]), {})))
    for v in ({}, {"r": 1}, {"a": {"b": [0, 1]}, "n": None}):
        ev.append(("op", h, "reset", (v,)))
    return ev


def list_mutators(h, values, rich=True):
    ev = []
    for v in values:
        ev.append(("op", h, "append", (v,)))
    for v in values[:4]:
        ev.append(("op", h, "insert", (0, v)))
        ev.append(("op", h, "setitem", (0, v)))
        ev.append(("op", h, "setitem", (-1, v)))
    ev.append(("op", h, "insert", (1, 9)))
    ev.append(("op", h, "insert", (-1, 9)))
    ev.append(("op", h, "insert", (50, 9)))
    for i in (0, 1, -1, 7):
        ev.append(("op", h, "delitem", (i,)))
        ev.append(("op", h, "pop", (i,)))
    ev.append(("op", h, "pop", ()))
    ev.append(("op", h, "extend", ([1, {"a": [2]}],)))
    ev.append(("op", h, "extend", ([],)))
    ev.append(("op", h, "iadd", ([[3], 4],)))
    ev.append(("op", h, "remove", (0,)))
    ev.append(("op", h, "remove", (1,)))
    ev.append(("op", h, "reverse", ()))
    ev.append(("op", h, "clear", ()))
    for v in ([], [9], [[1, {"a": 0}], 2, {"b": []}]):
        ev.append(("op", h, "reset", (v,)))
    if rich:
        ev.append(("op", h, "extend", (("#iter", [5, [6]]),)))
        ev.append(("op", h, "iadd", (("#tuple", [7]),)))
        ev.append(("op", h, "setitem", (("#slice", 0, 1, None), [8, {"s": 1}])))
        ev.append(("op", h, "setitem", (("#slice", 1, None, None), [])))
        ev.append(("op", h, "delitem", (("#slice", 0, 2, None),)))
        ev.append(("op", h, "delitem", (("#slice", None, None, 2),)))
        ev.append(("op", h, "remove", ({"a": 0},)))
        ev.append(("op", h, "append", (("#tuple", [1, [2]]),)))
    return ev


def twin_events(ref, h):
    """Rewrite the handle's current content with type-twins (0 -> False, 1 -> True, 0.0 -> -0.0 ...): values that
    compare == to what is stored but are different JSON values.  A built-in container stores them; a merge that
    skips 'equal' entries silently keeps the old ones."""
    node = ref.node(h)
    ev = []
    tw = model.twin(node)
    if not model.exact_eq(tw, node):
        ev.append(("op", h, "reset", (tw,)))
        if isinstance(node, dict):
            ev.append(("op", h, "update", (tw, {})))
    # ... and with DIFFERENT values of the same types at every leaf (what a merge sees when only values changed)
    sh = model.shifted(node)
    if not model.exact_eq(sh, node):
        ev.append(("op", h, "reset", (sh,)))
    return ev


def mutator_events(ref, values, rich=True, handles=None, twins=True):
    out = []
    for h in (handles if handles is not None else ref.attached_handles()):
        if ref.handle_kind(h) == "dict":
            out += dict_mutators(h, values, rich=rich)
        else:
            out += list_mutators(h, values, rich=rich)
        if twins:
            out += twin_events(ref, h)
    return out


def dict_reads(h):
    ev = [("op", h, "call", ()), ("op", h, "len", ()), ("op", h, "iter", ()), ("op", h, "keys", ()),
          ("op", h, "values", ()), ("op", h, "items", ()), ("op", h, "repr", ()), ("op", h, "str", ())]
    for k in ("a", "k", "zz"):
        ev.append(("op", h, "getitem", (k,)))
        ev.append(("op", h, "get", (k,)))
        ev.append(("op", h, "contains", (k,)))
    ev.append(("op", h, "get", ("zz", 5)))
    ev.append(("op", h, "eq", ({"a": 0},)))
    ev.append(("op", h, "ne", ({},)))
    return ev


def list_reads(h):
    ev = [("op", h, "call", ()), ("op", h, "len", ()), ("op", h, "iter", ()), ("op", h, "reversed", ()),
          ("op", h, "repr", ()), ("op", h, "str", ())]
    for i in (0, 1, -1, 5):
        ev.append(("op", h, "getitem", (i,)))
    ev.append(("op", h, "getitem", (("#slice", 0, 2, None),)))
    for v in (0, 9, {"a": 0}):
        ev.append(("op", h, "contains", (v,)))
        ev.append(("op", h, "index", (v,)))
        ev.append(("op", h, "count", (v,)))
    ev.append(("op", h, "eq", ([0],)))
    ev.append(("op", h, "lt", ([1],)))
    return ev


def read_events(ref, handles=None):
    out = []
    for h in (handles if handles is not None else ref.attached_handles()):
        out += dict_reads(h) if ref.handle_kind(h) == "dict" else list_reads(h)
    return out
