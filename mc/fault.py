"""Engine FAULT: crash-point enumeration (C08) and environment-error injection (C10).

Crash points of an operation window:
  ("line", k)            before the k-th executed line of library code inside the window
  ("write", j, n)        inside the j-th write() on a file the library opened for writing:
                         the first n bytes are written and flushed, then the process dies
  ("write-noflush", j)   all bytes handed to the j-th write(), no flush, then death
A crash is a real process death (os._exit in a forked child) on a real file system.
"""
import builtins
import errno
import json
import os
import sys

from . import env, seq

LIB_PREFIX = os.path.realpath(env.LIBDIR) + os.sep
CRASH_CODE = 77


def _from_lib(depth=2):
    try:
        f = sys._getframe(depth)
    except ValueError:
        return False
    return f.f_code.co_filename.startswith(LIB_PREFIX)


class _Abort(BaseException):
    pass


class Hooks:
    """Counting / crashing / failing wrappers around the environment calls the library makes."""

    def __init__(self, crash=None, fail=None):
        self.crash = crash  # crash point tuple or None
        self.fail = fail  # (call index, errno or 'corrupt'/'wrongtype') or None
        self.lines = 0
        self.writes = []  # length of each write
        self.calls = []  # env calls in order: (kind, detail)
        self.active = False
        self._open = builtins.open
        self._fdopen = os.fdopen
        self._replace = os.replace
        self._stat = os.stat
        self._dumps = json.dumps
        self.fail_dumps = False

    # ---- installation
    def install(self):
        hooks = self

        def open_(file, mode="r", *a, **kw):
            if not hooks.active or not _from_lib():
                return hooks._open(file, mode, *a, **kw)
            hooks._env_call("open-w" if any(c in mode for c in "wax+") else "open-r", file)
            f = hooks._open(file, mode, *a, **kw)
            return _FileProxy(hooks, f, any(c in mode for c in "wax+"))

        def replace(src, dst, *a, **kw):
            if hooks.active and _from_lib():
                hooks._env_call("replace", dst)
            return hooks._replace(src, dst, *a, **kw)

        def stat(path, *a, **kw):
            if hooks.active and _from_lib():
                hooks._env_call("stat", path)
            return hooks._stat(path, *a, **kw)

        def dumps(*a, **kw):
            if hooks.active and hooks.fail_dumps and _from_lib():
                raise TypeError("Object of type Injected is not JSON serializable")
            return hooks._dumps(*a, **kw)

        def fdopen(fd, mode="r", *a, **kw):
            f = hooks._fdopen(fd, mode, *a, **kw)
            if not hooks.active or not _from_lib():
                return f
            hooks._env_call("open-w" if any(c in mode for c in "wax+") else "open-r", fd)
            return _FileProxy(hooks, f, any(c in mode for c in "wax+"))

        enc_encode = json.JSONEncoder.encode
        enc_iterencode = json.JSONEncoder.iterencode
        hooks._enc = (enc_encode, enc_iterencode)

        def encode(self_, o):
            # the same injected failure for code that serialises through an encoder instance instead of json.dumps
            if hooks.active and hooks.fail_dumps and _from_lib():
                raise TypeError("Object of type Injected is not JSON serializable")
            return enc_encode(self_, o)

        def iterencode(self_, o, *a, **kw):
            if hooks.active and hooks.fail_dumps and _from_lib():
                raise TypeError("Object of type Injected is not JSON serializable")
            return enc_iterencode(self_, o, *a, **kw)

        json.JSONEncoder.encode = encode
        json.JSONEncoder.iterencode = iterencode
        builtins.open = open_
        import io
        io.open = open_
        os.fdopen = fdopen
        os.replace = replace
        os.stat = stat
        json.dumps = dumps

    def uninstall(self):
        builtins.open = self._open
        import io
        io.open = self._open
        os.fdopen = self._fdopen
        os.replace = self._replace
        os.stat = self._stat
        json.dumps = self._dumps
        if getattr(self, "_enc", None):
            json.JSONEncoder.encode, json.JSONEncoder.iterencode = self._enc

    # ---- env-call accounting and failure injection
    def _env_call(self, kind_, detail=None):
        idx = len(self.calls)
        self.calls.append(kind_)
        if self.fail is not None and self.fail[0] == idx and isinstance(self.fail[1], int):
            raise OSError(self.fail[1], os.strerror(self.fail[1]), str(detail))

    # ---- tracing (line crash points)
    def global_trace(self, frame, event, arg):
        if event == "call" and self.active and frame.f_code.co_filename.startswith(LIB_PREFIX):
            return self.local_trace
        return None

    def local_trace(self, frame, event, arg):
        if event == "line" and self.active:
            self.lines += 1
            if self.crash is not None and self.crash[0] == "line" and self.crash[1] == self.lines:
                os._exit(CRASH_CODE)
        return self.local_trace


class _FileProxy:
    def __init__(self, hooks, f, writing):
        self._h = hooks
        self._f = f
        self._w = writing

    def write(self, data):
        h = self._h
        if self._w and h.active:
            h.writes.append(len(data))
            j = len(h.writes)
            c = h.crash
            if c is not None and c[0] == "write" and c[1] == j:
                self._f.write(data[:c[2]])
                self._f.flush()
                os._exit(CRASH_CODE)
            if c is not None and c[0] == "write-noflush" and c[1] == j:
                self._f.write(data)
                os._exit(CRASH_CODE)
            h._env_call("write")
        return self._f.write(data)

    def read(self, *a):
        h = self._h
        if h.active:
            idx = len(h.calls)
            h._env_call("read")
            if h.fail is not None and h.fail[0] == idx and not isinstance(h.fail[1], int):
                data = self._f.read(*a)
                if h.fail[1] == "corrupt":
                    return data[: max(1, len(data) // 2)]
                if h.fail[1] == "empty":
                    return data[:0]
                if h.fail[1] == "wrongtype":
                    return b"[1]" if data.lstrip().startswith(b"{") else b'{"a": 1}'
                if h.fail[1] == "scalar":
                    return b"5"
        return self._f.read(*a)

    def close(self):
        if self._h.active:
            try:
                self._h._env_call("close")
            except OSError:
                self._f.close()
                raise
        return self._f.close()

    def __enter__(self):
        return self

    def __exit__(self, *a):
        self.close()

    def __getattr__(self, name):
        return getattr(self._f, name)

    def __iter__(self):
        return iter(self._f)


# --------------------------------------------------------------------------------------
# Crash enumeration
# --------------------------------------------------------------------------------------


def _configure_mode(clsname, mode):
    """mode: 'wc' (write_concern, threading off) | 'thr' (threading on) | 'both' | 'inplace'"""
    k = env.cls(clsname)
    if mode in ("wc", "inplace", "thr-late"):
        k.disable_multithreading()  # 'thr-late': objects are CONSTRUCTED while it is off, enabled afterwards
    else:
        k.enable_multithreading()
    return mode in ("wc", "both")


def run_window(scn, paths, hooks, traced):
    """Build the world on `paths`, run pre events, then the window events under the hooks."""
    cfg = scn["cfg"]
    wc = _configure_mode(cfg.clsname, scn["mode"])
    cfg2 = seq.Config(cfg.clsname, initial=cfg.initial, objects=cfg.objects, prefix=cfg.prefix, write_concern=wc)
    resources = [env.FileResource(env.ABSENT, name=p) for p in paths]
    world = seq.World(cfg2, resources=resources)
    if scn["mode"] == "thr-late":
        env.cls(cfg.clsname).enable_multithreading()
    for ev in cfg2.prefix:
        world.apply(ev)
    for ev in scn.get("pre", ()):
        out = world.apply(ev)
        if out is not None and out[0] == "exc":
            raise RuntimeError("pre event %r raised %r" % (ev, out[1]))
    if scn.get("plant_unserializable"):
        o = world.objects[0]
        d = getattr(o, "_data", None)
        from .model import Unserializable
        if isinstance(d, dict):
            d["planted"] = Unserializable()
        elif isinstance(d, list):
            d.append(Unserializable())
    versions = [[r.read_bytes()] for r in resources]
    outcomes = []
    hooks.fail_dumps = bool(scn.get("fail_dumps"))
    hooks.install()
    try:
        hooks.active = True
        if traced:
            sys.settrace(hooks.global_trace)
        try:
            for ev in scn["window"]:
                out = world.apply(ev)
                outcomes.append(None if out is None else (out[0], type(out[1]).__name__ if out[0] == "exc" else None))
                hooks.active = False
                for i, r in enumerate(resources):
                    versions[i].append(r.read_bytes())
                hooks.active = True
        finally:
            sys.settrace(None)
            hooks.active = False
    finally:
        hooks.uninstall()
    return world, versions, outcomes


def _child(fn):
    """Run fn() in a forked child; returns (exit code, payload from pipe or None)."""
    r, w = os.pipe()
    sys.stdout.flush()
    sys.stderr.flush()
    pid = os.fork()
    if pid == 0:
        code = 0
        try:
            os.close(r)
            payload = fn()
            os.write(w, json.dumps(payload, default=repr).encode())
        except BaseException as e:  # noqa: BLE001
            try:
                import traceback
                os.write(w, json.dumps({"error": "%s: %s" % (type(e).__name__, e), "tb": traceback.format_exc()[-1500:]}).encode())
            except Exception:  # noqa: BLE001
                pass
            code = 98
        finally:
            os._exit(code)
    os.close(w)
    chunks = []
    while True:
        b = os.read(r, 1 << 16)
        if not b:
            break
        chunks.append(b)
    os.close(r)
    _, status = os.waitpid(pid, 0)
    code = os.WEXITSTATUS(status) if os.WIFEXITED(status) else -1
    data = b"".join(chunks)
    return code, (json.loads(data) if data else None)


def measure(scn, paths):
    """Crash-free traced run in a child: number of line points, write sizes, file versions."""
    def fn():
        hooks = Hooks()
        world, versions, outcomes = run_window(scn, paths, hooks, traced=True)
        return {"lines": hooks.lines, "writes": hooks.writes, "calls": hooks.calls,
                "versions": [[None if v is None else v.decode("latin1") for v in vs] for vs in versions],
                "outcomes": outcomes}
    code, payload = _child(fn)
    if code != 0 or payload is None or "error" in payload:
        raise RuntimeError("measurement run failed (%r): %r" % (code, payload))
    payload["versions"] = [[None if v is None else v.encode("latin1") for v in vs] for vs in payload["versions"]]
    return payload


def crash_at(scn, paths, point):
    def fn():
        hooks = Hooks(crash=point)
        run_window(scn, paths, hooks, traced=(point[0] == "line"))
        return {"completed": True}
    code, payload = _child(fn)
    return code, payload


def reset_files(paths, initial):
    for p, init in zip(paths, initial):
        d, n = os.path.split(p)
        for x in os.listdir(d):
            if x.startswith("._") and x.endswith("_" + n):
                os.unlink(os.path.join(d, x))
        if init is env.ABSENT:
            if os.path.exists(p):
                os.unlink(p)
        else:
            with open(p, "wb") as f:
                f.write(env.dumps(init))


def check_after_crash(scn, paths, versions):
    """-> list of (kind, detail).  Every file must hold one of its complete versions and open normally."""
    out = []
    for i, p in enumerate(paths):
        try:
            with open(p, "rb") as f:
                blob = f.read()
        except FileNotFoundError:
            blob = None
        allowed = versions[i]
        if blob not in allowed:
            out.append(("torn-file", "file %d holds %r, complete versions are %r" % (i, None if blob is None else blob[:80], [None if a is None else a[:80] for a in allowed])))
            continue
        if blob is not None:
            def fn(p=p, blob=blob):
                c = scn["cfg"].clsname
                o = env.cls(c)(filename=p)
                got = o()
                return {"content": got}
            code, payload = _child(fn)
            if code != 0 or payload is None or "error" in payload:
                out.append(("unopenable", "a fresh collection cannot open file %d after the crash: %r" % (i, payload)))
            elif payload["content"] != json.loads(blob):
                out.append(("unopenable", "a fresh collection reads %r from file %d holding %r" % (payload["content"], i, blob[:80])))
    return out


def enumerate_points(m, lines_filter=None):
    pts = [("line", k) for k in range(1, m["lines"] + 1)]
    for j, n in enumerate(m["writes"], 1):
        pts += [("write", j, x) for x in range(0, n + 1)]
        pts.append(("write-noflush", j))
    return pts
