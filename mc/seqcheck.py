"""Glue between SEQ-engine checks and the runner: isolated BFS tasks, signatures, replays."""
import importlib

from . import env, isolate, seq
from .env import ABSENT
from .runner import new_result


def cfg_to_doc(cfg):
    return {"clsname": cfg.clsname, "initial": repr(cfg.initial), "objects": list(cfg.objects),
            "prefix": repr(cfg.prefix), "write_concern": cfg.write_concern, "label": cfg.label,
            "options": getattr(cfg, "options", {})}


def _lit(s):
    return eval(s, {"__builtins__": {}, "ABSENT": ABSENT, "Debris": env.Debris})  # our own files only


def cfg_from_doc(d):
    return seq.Config(d["clsname"], initial=_lit(d["initial"]), objects=tuple(d["objects"]),
                      prefix=_lit(d["prefix"]), write_concern=d["write_concern"], label=d["label"],
                      options=d.get("options"))


def event_sig(ref, ev):
    t = ev[0]
    if t == "op":
        h = ref.handles[ev[1]] if ev[1] < len(ref.handles) else None
        where = "root" if (h is None or not h["path"]) else "child"
        return "%s@%s" % (ev[2], where)
    if t == "ext":
        return "ext"
    return t


def make_task(label, cfg, alphabet, depth, oracles, hooks=None, max_transitions=None, extra=None,
              part=None):
    """part=(i, n): explore only histories whose FIRST event has index = i mod n (parallel split)."""
    return {"kind": "seq", "label": label, "cfg": cfg, "alphabet": alphabet, "depth": depth,
            "oracles": sorted(oracles), "hooks": hooks, "max_transitions": max_transitions,
            "extra": extra or {}, "part": part}


def split(n, level=1, **kw):
    """n tasks that partition one BFS by first event (level=1) or by the first two events (level=2)."""
    out = []
    for i in range(n):
        k = dict(kw)
        k["label"] = "%s#%d/%d" % (kw["label"], i, n)
        k["part"] = (i, n) if level == 1 else (i, n, 2)
        out.append(make_task(**k))
    return out


def run_seq_task(mod, task):
    """BFS one task with every history executed in an isolated child."""
    env.lib(getattr(mod, "WITH_NUMPY", False))
    cfg = task["cfg"]
    alphabet = getattr(mod, task["alphabet"])
    oracles = set(task["oracles"])
    hooks = mod.make_hooks(task["hooks"], task) if task["hooks"] else None

    def handler(hist):
        task["level"] = len(hist)
        sigbox = {}

        def alpha_now(ref):
            sigbox["sig"] = event_sig(ref, hist[-1]) if hist else "-"
            return alphabet(ref, task)

        r = seq.execute(cfg, hist, oracles, hooks, alphabet=alpha_now)
        viol = list(r.violations)
        dirty = bool(viol)
        if not dirty and hist and getattr(mod, "CHECK_PRISTINE", False):
            pass
        last_sig = sigbox.get("sig", "-")
        enabled = r.enabled
        if not hist and task.get("part") and len(task["part"]) == 2:
            i, n = task["part"]
            enabled = [e for j, e in enumerate(enabled) if j % n == i]
        resp = {"violations": viol, "digest": r.digest, "enabled": enabled,
                "outcome": seq._outcome_key(r.outcome), "sig": last_sig}
        return resp, dirty

    server = isolate.Server(handler)
    sigs = {}

    def executor(c, h):
        resp = server.call(h)
        sigs[repr(h)] = resp["sig"]
        return resp

    try:
        part = task.get("part")
        st = seq.bfs(cfg, None, task["depth"], oracles, hooks, executor=executor,
                     max_transitions=task.get("max_transitions"),
                     part2=tuple(part[:2]) if part and len(part) == 3 else None)
    finally:
        server.close()
    res = new_result()
    res["states"] = st.states
    res["transitions"] = st.transitions
    res["evaluations"] = st.transitions
    res["nontrivial"] = len(st.nontrivial)
    res["max_depth"] = st.max_depth
    res["capped"] = st.capped
    res["outcomes"] = {"%s:%s" % k: v for k, v in st.outcomes.items()}
    res["samples"] = st.samples
    res["extra"] = {"merged_transitions": st.merged, "children_spawned": server.spawned}
    for v in st.violations:
        evsig = sigs.get(repr(v["history"]), "?")
        if hasattr(mod, "signature_tag"):
            tag = mod.signature_tag(cfg, v["history"])
            if tag:
                evsig = "%s:%s" % (evsig, tag)
        sig = "%s|%s|%s|%s" % (mod.PROPERTY, cfg.label, evsig, v["kind"])
        res["violations"].append({
            "signature": sig, "detail": v["detail"],
            "replay": {"engine": "seq", "module": mod.__name__,
                       "task": {"label": task["label"], "cfg": cfg_to_doc(cfg), "alphabet": task["alphabet"],
                                "depth": task["depth"], "oracles": task["oracles"], "hooks": task["hooks"],
                                "extra": task.get("extra", {})},
                       "history": [repr(e) for e in v["history"]]}})
    return res


def replay_seq(doc):
    """Re-execute a recorded history without any search.  -> list of (kind, detail)."""
    mod = importlib.import_module(doc["module"])
    env.lib(getattr(mod, "WITH_NUMPY", False))
    t = doc["task"]
    cfg = cfg_from_doc(t["cfg"])
    hist = tuple(_lit(e) for e in doc["history"])
    task = dict(t)
    task["cfg"] = cfg
    hooks = mod.make_hooks(t["hooks"], task) if t["hooks"] else None
    out = []
    # every prefix: the recorded history is minimal, but report wherever it fails now
    r = seq.execute(cfg, hist, set(t["oracles"]), hooks)
    out.extend(r.violations)
    return out


# --------------------------------------------------------------------------------------
# Enumerated cases (no search): each case is (tag, cfg, history) checked on its last event
# --------------------------------------------------------------------------------------


def make_case_task(label, cases, oracles, hooks=None, extra=None):
    return {"kind": "cases", "label": label, "cases": cases, "oracles": sorted(oracles), "hooks": hooks,
            "extra": extra or {}}


def run_case_task(mod, task):
    env.lib(getattr(mod, "WITH_NUMPY", False))
    oracles = set(task["oracles"])
    hooks = mod.make_hooks(task["hooks"], task) if task["hooks"] else None
    cases = task["cases"]

    def handler(i):
        tag, cfg, hist = cases[i]
        r = seq.execute(cfg, hist, oracles, hooks)
        return {"violations": list(r.violations), "outcome": seq._outcome_key(r.outcome), "digest": r.digest}, bool(r.violations)

    server = isolate.Server(handler)
    res = new_result()
    digests = set()
    try:
        for i, (tag, cfg, hist) in enumerate(cases):
            resp = server.call(i)
            res["evaluations"] += 1
            res["transitions"] += 1
            digests.add(resp["digest"])
            key = "%s:%s" % (hist[-1][2] if hist and hist[-1][0] == "op" else (hist[-1][0] if hist else "-"), resp["outcome"])
            res["outcomes"][key] = res["outcomes"].get(key, 0) + 1
            if len(res["samples"]) < 2:
                res["samples"].append({"tag": tag, "class": cfg.clsname, "history": [repr(e) for e in hist]})
            for k, d in resp["violations"]:
                sig = "%s|%s|%s|%s" % (mod.PROPERTY, cfg.label, tag, k)
                res["violations"].append({
                    "signature": sig, "detail": d,
                    "replay": {"engine": "seq", "module": mod.__name__,
                               "task": {"label": task["label"], "cfg": cfg_to_doc(cfg), "alphabet": None, "depth": len(hist),
                                        "oracles": task["oracles"], "hooks": task["hooks"], "extra": task.get("extra", {})},
                               "history": [repr(e) for e in hist]}})
    finally:
        server.close()
    res["states"] = len(digests)
    res["nontrivial"] = len(digests)
    return res
