"""Engine self-tests (./run selftest): the machinery must be able to fail.

1. SCHED sees races: with the library's locks disabled (Class.disable_multithreading()) the
   classic lost update setitem||setitem MUST be found at bound 1; with locks enabled it must not.
2. The invisible-subtree reduction is validated: for a set of programs the set of distinct
   observations at bound 1 is identical with and without the reduction.
3. Replay determinism: one recorded schedule replayed twice yields identical observations.
4. FAULT sees torn writes: in the non-atomic in-place mode crash points MUST leave torn files.
5. Canon soundness (differential): histories with equal digests have equal one-step futures.
"""
import sys


def main(argv):
    from . import sched
    sched.install()
    from . import env, fault, isolate, schedcheck, seq
    env.lib()
    from .checks import c08, c09
    ok = True

    def prog(c, names, topo="same"):
        return c09.build(c, topo, names)

    # 1
    p = prog("JSONDict", ["setitem_diff", "setitem_diff"])
    r = schedcheck.explore_program(p, 1)
    print("selftest 1a: locks on  -> executions=%d violations=%d" % (r["evaluations"], len(r["violations"])))
    ok &= not r["violations"] and not r["errors"]
    p2 = dict(p)
    p2["setup"] = ()
    p2["disable_threading"] = True
    r = schedcheck.explore_program(p2, 1)
    kinds = sorted(v["replay"]["kind"] for v in r["violations"])
    print("selftest 1b: locks off -> executions=%d violation kinds=%r" % (r["evaluations"], kinds))
    ok &= "lost-update" in kinds
    # 2
    for names, topo in ((["setitem_diff", "update"], "same"), (["reset", "setitem_diff"], "two-objects"),
                        (["append", "pop"], "root+listchild")):
        c = "JSONDict"
        q = prog(c, names, topo)
        if q is None:
            continue
        outs = []
        for red in (True, False):
            seen = set()
            state = {}

            def on_start(red=red):
                state["r"] = schedcheck.ProgramRunner(q, red)
                for o in schedcheck.serial_orders(q["threads"]):
                    state["r"].run_serial(o)  # warm the type-resolver memos (they change the number of executed lines)

            def handler(req):
                out = state["r"].run_schedule(req)
                return out, out["dirty"]
            srv = isolate.Server(handler, on_start=on_start)
            try:
                def run_one(prefix):
                    return srv.call(prefix)
                sched.explore(run_one, 1, None, lambda pre, x: seen.add(x["obs"]) and False)
            finally:
                srv.close()
            outs.append(seen)
        same = outs[0] == outs[1]
        print("selftest 2: %s reduction on/off distinct observations %d/%d equal=%s" % (q["label"], len(outs[0]), len(outs[1]), same))
        ok &= same
    # 3
    runner_state = {}

    def on_start3():
        runner_state["r"] = schedcheck.ProgramRunner(prog("JSONDict", ["update", "delitem"], "two-objects"))

    def h3(req):
        return runner_state["r"].run_schedule(req), False
    srv = isolate.Server(h3, on_start=on_start3)
    try:
        first = srv.call(())
        n = len(first["choices"])
        pre = tuple(first["choices"][: n // 3]) + (1,)
        a, b = srv.call(pre), srv.call(pre)
        same = a["obs"] == b["obs"] and a["choices"] == b["choices"] and a["status"] == b["status"] == "ok"
        print("selftest 3: replay determinism -> %s (%d points)" % (same, len(a["choices"])))
        ok &= same
    finally:
        srv.close()
    # 4
    prefix, ev = c08.MUT["dict"]["setitem"]
    scn = {"label": "JSONDict/setitem/inplace", "cfg": seq.Config("JSONDict", initial=(c08.INIT["dict"],), prefix=prefix),
           "mode": "inplace", "pre": (), "window": (ev,), "family": "mutator"}
    r = c08.run_task({"scn": scn, "label": "x"})
    print("selftest 4: in-place mode -> crash points=%d torn states=%d" % (r["evaluations"], len(r["violations"])))
    ok &= len(r["violations"]) > 0
    # 5
    from .checks import c04
    cfg = seq.Config("JSONDict", initial=({"a": {"b": [0]}, "k": 0},), objects=(0, 0), prefix=(("nav", 0, "a"), ("nav", 1, "a")))
    task = {"extra": {"reads": True}, "level": 0}
    by_digest = {}
    frontier = [()]
    checked = 0
    for depth in range(3):
        nxt = []
        for h in frontier:
            r0 = seq.execute(cfg, h, {"resource"}, None, alphabet=lambda ref: c04.alphabet(ref, task))
            fut = []
            for e in r0.enabled:
                r1 = seq.execute(cfg, h + (e,), {"resource", "result"}, None)
                fut.append((repr(e), seq._outcome_key(r1.outcome), r1.digest))
                if depth < 2 and not r1.violations:
                    nxt.append(h + (e,))
            sig = tuple(sorted(fut))
            if r0.digest in by_digest and by_digest[r0.digest][0] != sig:
                print("selftest 5: digest collision with different futures: %r vs %r" % (h, by_digest[r0.digest][1]))
                ok = False
            by_digest.setdefault(r0.digest, (sig, h))
            checked += 1
        # deduplicate the next frontier by digest to keep it small
        frontier = nxt[:400]
    print("selftest 5: canon differential -> %d histories, %d distinct digests" % (checked, len(by_digest)))
    print("SELFTEST " + ("OK" if ok else "FAILED"))
    return 0 if ok else 1
