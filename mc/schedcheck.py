"""Programs for the SCHED engine, the serial-order oracle, and task glue.

A program:
  {"label", "cfg": seq.Config, "ctx": None | ("cls", capacity-or-None), "threads": [[event, ...], ...],
   "pair": "op1||op2", "topology": str}
Thread events are seq events ("op", handle, name, args).  The oracle is the set of
observations produced by executing the program's operations one at a time, in every order
that respects each thread's own order, on the real implementation in fresh worlds.
"""
import importlib
import itertools
import os
import sys

from . import env, isolate, model, sched, seq
from .runner import new_result


def serial_orders(threads):
    """All interleavings of the threads' operation indices."""
    lens = [len(t) for t in threads]
    out = []

    def rec(pos, acc):
        if all(p == l for p, l in zip(pos, lens)):
            out.append(tuple(acc))
            return
        for i in range(len(threads)):
            if pos[i] < lens[i]:
                pos[i] += 1
                acc.append((i, pos[i] - 1))
                rec(pos, acc)
                acc.pop()
                pos[i] -= 1

    rec([0] * len(threads), [])
    return out


def _shallow(v):
    """Observation of a result: live synced containers are observed by kind only (they are views
    that legitimately reflect later writes); everything else exactly."""
    if env.is_synced(v):
        return "container:" + ("dict" if hasattr(v, "keys") else "list")
    if isinstance(v, tuple):
        return "(" + ",".join(_shallow(x) for x in v) + ")"
    if isinstance(v, list):
        return "[" + ",".join(_shallow(x) for x in v) + "]"
    return model.canon_json(v)


def _apply_op(world, ev):
    """Run one thread event; the observation is computed atomically (no scheduling points)."""
    if ev[0] == "newwrite":
        # construct a NEW object on resource ev[1] and write through it at once: (construction, first lock use) race
        _, r, key = ev
        try:
            o = world.resources[r].make(world.cfg.clsname)
            world.objects.append(o)
            if hasattr(o, "keys"):
                o[key] = 1
            else:
                o.append(key)
        except Exception as e:  # noqa: BLE001
            return ("exc", type(e).__name__)
        return ("ok", "null")
    if ev[0] != "op":
        out = world.apply(ev)
        if out is not None and out[0] == "exc":
            return ("exc", type(out[1]).__name__)
        return ("ok", "null")
    _, h, op, args = ev
    try:
        r = model.impl_call(world.handle_objs[h], op, args, world.mk_synced)
    except Exception as e:  # noqa: BLE001
        return ("exc", type(e).__name__)
    with sched.atomic():
        obs = _shallow(r)
        if op in ("iter", "keys", "values", "items") and hasattr(world.handle_objs[h], "keys") and isinstance(r, list):
            # the ORDER in which a mapping enumerates its keys is not part of any property (merges may reorder)
            obs = "[" + ",".join(sorted(_shallow(x) for x in r)) + "]"
        return ("ok", obs)


class ProgramRunner:
    """Lives in the execution child."""

    def __init__(self, program, reduction=True):
        self.program = program
        self.reduction = reduction
        env.lib()
        self.klass = env.cls(program["cfg"].clsname)
        self.buffered = env.is_buffered_class(program["cfg"].clsname)

    def _setup(self):
        cfg = self.program["cfg"]
        if self.program.get("disable_threading"):
            self.klass.disable_multithreading()  # self-test only: a racy configuration that must be caught
        world = seq.World(cfg)
        for ev in cfg.prefix:
            world.apply(ev)
        for ev in self.program.get("pre_ctx", ()):
            world.apply(ev)  # history before the context of the threads (e.g. an earlier complete buffered session)
        ctx = self.program.get("ctx")
        if ctx is not None:
            cap = ctx[1]
            cm = self.klass.buffer_backend() if cap is None else self.klass.buffer_backend(cap)
            cm.__enter__()
            world.cls_ctx.append(cm)
        for ev in self.program.get("setup", ()):
            world.apply(ev)
        return world

    def _finish(self, world, results):
        exit_exc = None
        while world.cls_ctx:
            try:
                world.cls_ctx.pop().__exit__(None, None, None)
            except Exception as e:  # noqa: BLE001
                exit_exc = type(e).__name__ + ":" + str(e)[:80]
        files = [model.canon_json(r.read()) for r in world.resources]
        size = self.klass.get_current_buffer_size() if self.buffered else 0
        held = len(sched.held_locks()) if sched.installed() else 0
        views = []
        if self.program.get("final_views", True):
            for o in world.objects:
                try:
                    views.append(model.canon_json(model.to_plain(o())))
                except Exception as e:  # noqa: BLE001
                    views.append("raise " + type(e).__name__)
        seq._teardown(world)
        return (tuple(tuple(r) for r in results), tuple(files), exit_exc, size, held, tuple(views))

    def run_serial(self, order):
        world = self._setup()
        threads = self.program["threads"]
        results = [[None] * len(t) for t in threads]
        for i, j in order:
            results[i][j] = _apply_op(world, threads[i][j])
        return self._finish(world, results)

    def run_schedule(self, prefix):
        world = self._setup()
        threads = self.program["threads"]
        results = [[None] * len(t) for t in threads]

        def mk(i):
            def body():
                for j, ev in enumerate(threads[i]):
                    results[i][j] = _apply_op(world, ev)
            return body

        ex = sched.Execution([mk(i) for i in range(len(threads))], prefix, reduction=self.reduction)
        ex.run()
        out = {"points": ex.points, "choices": ex.choices, "status": ex.status, "detail": ex.detail,
               "preemptions": ex.preemptions, "trace": ex.trace}
        if ex.clean():
            out["obs"] = self._finish(world, results)
            raised = any(o is not None and o[0] == "exc" for r in results for o in r)
            out["dirty"] = raised or out["obs"][2] is not None or out["obs"][4] != 0
        else:
            out["obs"] = ("aborted", ex.status, tuple(tuple(r) for r in results))
            out["dirty"] = True
        return out


def classify(obs, allowed, program):
    """-> None if the observation is allowed, else (kind, detail)."""
    if obs in allowed:
        return None
    if obs[0] == "aborted":
        return (obs[1], "execution aborted: %s" % (obs[1],))
    results = obs[0]
    threads = program["threads"]
    only = program.get("only_kinds")
    if only and "lock-held" in only and obs[4] != 0 and not any(a[4] == obs[4] for a in allowed):
        # a program that is only about locks: a lock left held is the finding, whatever else went wrong on the way
        # (typically an exception raised by releasing the wrong lock)
        return ("lock-held", "%d library locks still held after all threads finished (results %r)" % (obs[4], results))
    for i, r in enumerate(results):
        for j, o in enumerate(r):
            if o is not None and o[0] == "exc":
                ok = any(a[0][i][j] == o for a in allowed)
                if not ok:
                    return ("exception:" + o[1], "%r raised %s which no serial order raises" % (threads[i][j], o[1]))
    if obs[2] is not None and not any(a[2] == obs[2] for a in allowed):
        return ("exit-exception", "context exit raised %s" % (obs[2],))
    if obs[4] != 0 and not any(a[4] == obs[4] for a in allowed):
        return ("lock-held", "%d library locks still held after all threads finished" % obs[4])
    if obs[3] != 0 and not any(a[3] == obs[3] for a in allowed):
        return ("buffer-size", "reported buffer size %r after the context exited" % (obs[3],))
    if not any(a[1] == obs[1] for a in allowed):
        return ("lost-update", "final resource content %r is produced by no serial order (allowed: %s)"
                % (obs[1], sorted({a[1] for a in allowed})))
    if not any(a[0] == obs[0] for a in allowed):
        return ("result", "operation results %r match no serial order" % (obs[0],))
    return ("nonserializable", "results+content %r match no single serial order" % (obs[:2],))


def explore_program(program, bound, reduction=True, max_executions=None):
    """Explore one program in isolated children.  Returns a result dict for the runner."""
    state = {}

    def on_start():
        state["runner"] = ProgramRunner(program, reduction)
        # every execution child is warmed up with the serial orders before it serves schedules: memoised type
        # classification makes the very first execution of a process a few lines longer than all later ones, and a
        # child that replaces a recycled one (long bound-2 searches) would otherwise diverge from recorded prefixes
        try:
            for o in serial_orders(program["threads"]):
                state["runner"].run_serial(o)
        except Exception:  # noqa: BLE001 - the regular serial runs report whatever is wrong
            pass

    def handler(req):
        mode, arg = req
        r = state["runner"]
        if mode == "serial":
            obs = r.run_serial(arg)
            return {"obs": obs}, (obs[3] != 0 or obs[4] != 0 or obs[2] is not None)
        out = r.run_schedule(arg)
        return out, out["dirty"]

    server = isolate.Server(handler, recycle=10 ** 9, on_start=on_start)  # children retire only when an execution was dirty
    res = new_result()
    try:
        orders = serial_orders(program["threads"])
        allowed = set()
        for o in orders:
            allowed.add(server.call(("serial", o))["obs"])
        # determinism of the oracle: a second pass must give the same set
        again = {server.call(("serial", o))["obs"] for o in orders}
        if again != allowed:
            res["errors"].append("%s: serial orders are not deterministic" % program["label"])
            return res
        outcomes = {}
        viols = {}

        gone = [0]

        def run_one(prefix):
            x = server.call(("sched", prefix))
            if x["status"] == "alt-gone":
                gone[0] += 1
                return {"points": [], "choices": list(prefix), "skip": True, "status": "alt-gone"}
            if x["status"] == "diverged":
                raise isolate.ExplorerError("%s: %s" % (program["label"], x["detail"]))
            if x["status"] == "timeout":
                raise isolate.ExplorerError("%s: %s" % (program["label"], x["detail"]))
            return x

        def on_exec(prefix, x):
            if x.get("skip"):
                return True
            obs = x["obs"]
            outcomes[obs] = outcomes.get(obs, 0) + 1
            bad = classify(obs, allowed, program)
            if bad is not None:
                kind_, detail = bad
                if x["status"] != "ok":
                    detail = "%s: %s" % (x["status"], x["detail"])
                key = kind_
                cur = viols.get(key)
                cand = (x["preemptions"], len(x["choices"]))
                if cur is None or cand < cur[0]:
                    viols[key] = (cand, {"kind": kind_, "detail": detail, "schedule": list(x["choices"]),
                                         "trace": x["trace"]})
            return False

        ex, nodes, steps, capped = sched.explore(run_one, bound, max_executions, on_exec)
        res["evaluations"] = ex
        res["states"] = nodes + 1
        res["transitions"] = steps
        res["capped"] = capped
        res["nontrivial"] = len(outcomes)
        res["max_depth"] = 0
        res["outcomes"] = {"distinct_observations": len(outcomes), "serial_observations": len(allowed)}
        res["samples"] = [{"program": describe(program), "bound": bound, "executions": ex,
                           "distinct_observations": len(outcomes)}]
        res["extra"] = {"programs": 1, "children_spawned": server.spawned, "serial_orders": len(orders),
                        "alternatives_gone": gone[0]}
        for key, (cand, v) in viols.items():
            res["violations"].append(make_violation(program, v, bound, reduction))
    finally:
        server.close()
    return res


def describe(program):
    return {"label": program["label"], "class": program["cfg"].clsname, "topology": program.get("topology"),
            "ctx": program.get("ctx"), "threads": [[repr(e) for e in t] for t in program["threads"]]}


def make_violation(program, v, bound, reduction):
    from .seqcheck import cfg_to_doc

    sig = "%s|%s|%s|%s|%s" % (program["property"], env.family_of(program["cfg"].clsname) + ":" +
                              env.kind_of(program["cfg"].clsname),
                              program.get("topology", "-") + (":ctx" + str(program["ctx"][1]) if program.get("ctx") else ""),
                              program["pair"], v["kind"])
    return {"signature": sig, "detail": "%s [%s] %s" % (program["label"], v["kind"], v["detail"]),
            "replay": {"engine": "sched", "module": program["module"],
                       "program": {"label": program["label"], "cfg": cfg_to_doc(program["cfg"]),
                                   "ctx": program.get("ctx"), "threads": repr(program["threads"]),
                                   "setup": repr(program.get("setup", ())),
                                   "pre_ctx": repr(program.get("pre_ctx", ())),
                                   "pair": program["pair"], "topology": program.get("topology"),
                                   "property": program["property"], "module": program["module"],
                                   "only_kinds": list(program["only_kinds"]) if program.get("only_kinds") else None,
                                   "final_views": program.get("final_views", True)},
                       "schedule": v["schedule"], "bound": bound, "reduction": reduction,
                       "kind": v["kind"]}}


def program_from_doc(d):
    from .seqcheck import _lit, cfg_from_doc

    return {"label": d["label"], "cfg": cfg_from_doc(d["cfg"]), "ctx": tuple(d["ctx"]) if d.get("ctx") else None,
            "threads": _lit(d["threads"]), "setup": _lit(d.get("setup", "()")), "pre_ctx": _lit(d.get("pre_ctx", "()")),
            "pair": d["pair"],
            "topology": d.get("topology"), "property": d["property"], "module": d["module"],
            "only_kinds": tuple(d["only_kinds"]) if d.get("only_kinds") else None,
            "final_views": d.get("final_views", True)}


def replay_sched(doc):
    """Re-run one recorded schedule (baton, no search).  -> list of (kind, detail)."""
    program = program_from_doc(doc["program"])
    state = {}

    def on_start():
        state["runner"] = ProgramRunner(program, doc.get("reduction", True))

    def handler(req):
        mode, arg = req
        r = state["runner"]
        if mode == "serial":
            return {"obs": r.run_serial(arg)}, False
        out = r.run_schedule(arg)
        return out, True

    server = isolate.Server(handler, on_start=on_start)
    try:
        allowed = {server.call(("serial", o))["obs"] for o in serial_orders(program["threads"])}
        x = server.call(("sched", tuple(doc["schedule"])))
        if x["status"] == "diverged":
            # the code changed shape: fall back to a bounded search for the same kind of failure
            r = explore_program(program, doc.get("bound", 1), doc.get("reduction", True))
            return [(v["replay"]["kind"], v["detail"]) for v in r["violations"]]
        bad = classify(x["obs"], allowed, program)
        if bad is None:
            # schedules are positional; if the recorded one is now benign, search the bounded space
            r = explore_program(program, doc.get("bound", 1), doc.get("reduction", True))
            return [(v["replay"]["kind"], v["detail"]) for v in r["violations"]]
        return [bad]
    finally:
        server.close()


def run_sched_task(task):
    """task: {"label", "programs": [program...], "bound", "reduction", "max_executions"}"""
    agg = new_result()
    for p in task["programs"]:
        r = explore_program(p, task["bound"], task.get("reduction", True), task.get("max_executions"))
        for k in ("states", "transitions", "evaluations", "nontrivial"):
            agg[k] += r[k]
        agg["capped"] = agg["capped"] or r["capped"]
        agg["violations"] += r["violations"]
        agg["errors"] += r["errors"]
        if len(agg["samples"]) < 2:
            agg["samples"] += r["samples"]
        for k, v in r["extra"].items():
            agg["extra"][k] = agg["extra"].get(k, 0) + v
        if r["outcomes"].get("serial_observations", 0) > 1 and r["outcomes"].get("distinct_observations", 0) <= 1 \
                and r["evaluations"] > 10:
            agg["notes"].append("single outcome although serial orders differ: %s" % p["label"])
        agg["outcomes"]["programs_with_1_outcome"] = agg["outcomes"].get("programs_with_1_outcome", 0) + \
            (1 if r["outcomes"].get("distinct_observations", 0) <= 1 else 0)
        agg["outcomes"]["programs_with_many_outcomes"] = agg["outcomes"].get("programs_with_many_outcomes", 0) + \
            (1 if r["outcomes"].get("distinct_observations", 0) > 1 else 0)
    return agg
