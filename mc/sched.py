"""Engine SCHED: stateless exploration of thread schedules of the real implementation.

* one baton: exactly one program thread runs at a time;
* a scheduling point is every `line` event (sys.settrace) in a frame whose code lives under
  the synced_collections package, plus every lock acquisition that would block, thread start
  and thread end;
* every lock the library creates is a SchedLock (factory installed in threading.RLock/Lock
  before the library is imported; callers outside the library get real locks);
* search: replay a choice prefix, then always choice 0 (= keep running the current thread);
  alternatives are explored when the number of preemptions stays within the bound
  (CHESS-style iterative context bounding).
"""
import os
import sys
import threading
import time

from . import env

_real_RLock = threading.RLock
_real_Lock = threading.Lock
_installed = False
LIB_PREFIX = os.path.realpath(env.LIBDIR) + os.sep

_current = None  # the Execution in progress (one per process)
ALL_LOCKS = []


class Abort(BaseException):
    """Raised inside program threads to unwind an aborted execution."""


class SchedLock:
    """Re-entrant lock known to the scheduler.  Outside a scheduled region it is a plain RLock."""

    def __init__(self):
        self._real = _real_RLock()
        self.owner = None  # scheduler thread id, or ('real', ident)
        self.count = 0
        ALL_LOCKS.append(self)

    def _canon_state(self):
        return (self.owner is not None, self.count)

    def acquire(self, blocking=True, timeout=-1):
        ex = _current
        me = ex.me() if ex is not None else None
        if me is None:
            ok = self._real.acquire(blocking, timeout)
            if ok:
                self.owner = ("real", threading.get_ident())
                self.count += 1
            return ok
        return ex.lock_acquire(self, me, blocking)

    def release(self):
        ex = _current
        me = ex.me() if ex is not None else None
        if me is None:
            if self.count <= 0:
                raise RuntimeError("cannot release un-acquired lock")
            self.count -= 1
            if self.count == 0:
                self.owner = None
            self._real.release()
            return
        ex.lock_release(self, me)

    __enter__ = acquire

    def __exit__(self, *a):
        self.release()

    def locked(self):
        return self.owner is not None

    def __repr__(self):
        return "<SchedLock owner=%r count=%d>" % (self.owner, self.count)


def _factory(*a, **kw):
    f = sys._getframe(1)
    fn = f.f_code.co_filename
    try:
        lib = os.path.realpath(fn).startswith(LIB_PREFIX)
    except Exception:  # noqa: BLE001
        lib = False
    if lib:
        return SchedLock()
    return _real_RLock(*a, **kw)


def _factory_lock(*a, **kw):
    f = sys._getframe(1)
    fn = f.f_code.co_filename
    try:
        lib = os.path.realpath(fn).startswith(LIB_PREFIX)
    except Exception:  # noqa: BLE001
        lib = False
    if lib:
        return SchedLock()
    return _real_Lock(*a, **kw)


def install():
    """Must run before the library is imported."""
    global _installed
    if _installed:
        return
    assert "synced_collections" not in sys.modules, "lock interposition must precede the library import"
    threading.RLock = _factory
    threading.Lock = _factory_lock
    _installed = True


def installed():
    return _installed


class atomic:
    """Harness code that must not contain scheduling points (e.g. converting a result)."""

    def __enter__(self):
        ex = _current
        me = ex.me() if ex is not None else None
        self.t = ex.threads[me] if me is not None else None
        if self.t is not None:
            self.t.invisible += 1

    def __exit__(self, *a):
        if self.t is not None:
            self.t.invisible -= 1


def held_locks():
    return [l for l in ALL_LOCKS if l.owner is not None]


# --------------------------------------------------------------------------------------


_INVISIBLE_FILES = ("validators.py", "numpy_utils.py")


def _is_invisible(co):
    fn = co.co_filename
    base = os.path.basename(fn)
    if base in _INVISIBLE_FILES:
        return True
    if co.co_name == "get_type" and base == "utils.py":
        return True
    if co.co_name == "json_attr_dict_validator":
        return True
    return False


class TState:
    __slots__ = ("tid", "body", "sem", "status", "blocked_on", "thread", "invisible", "result", "started")

    def __init__(self, tid, body):
        self.tid = tid
        self.body = body
        self.sem = threading.Semaphore(0)
        self.status = "ready"  # ready | blocked | done
        self.blocked_on = None
        self.thread = None
        self.invisible = 0
        self.result = None


class Execution:
    """One run of a program under a choice prefix."""

    def __init__(self, bodies, prefix=(), reduction=True, horizon=20000, watchdog=30.0):
        self.threads = [TState(i, b) for i, b in enumerate(bodies)]
        self.prefix = tuple(prefix)
        self.reduction = reduction
        self.horizon = horizon
        self.watchdog = watchdog
        self.choices = []
        self.points = []  # (n_enabled, running_enabled)
        self.trace = []  # chosen tid per point
        self.idents = {}
        self.running = None
        self.done_evt = threading.Event()
        self.status = "ok"  # ok | deadlock | livelock | diverged | alt-gone | timeout
        self.detail = None
        self.aborting = False
        self.preemptions = 0
        self.deadlock_info = None

    # -- identification
    def me(self):
        return self.idents.get(threading.get_ident())

    # -- choice
    def _choose(self, n, running_enabled):
        i = len(self.choices)
        if i < len(self.prefix):
            c = self.prefix[i]
            if c >= n:
                if i == len(self.prefix) - 1:
                    # the prefix up to here replayed exactly; only the NEW alternative at its last position is not
                    # there (the other thread turned out to have finished already: it had no library line left, and
                    # whether its end is registered before or after this point is a harness-level race).  Nothing is
                    # lost - that thread has no operation left to interleave - so the branch is skipped and counted.
                    self._abort("alt-gone", "alternative %d of %d at point %d is gone" % (c, n, i))
                    raise Abort()
                self._abort("diverged", "replay divergence at point %d: choice %d of %d enabled" % (i, c, n))
                raise Abort()
        else:
            c = 0
        self.choices.append(c)
        self.points.append((n, running_enabled))
        if running_enabled and c != 0:
            self.preemptions += 1
        if len(self.choices) > self.horizon:
            self._abort("livelock", "more than %d scheduling points" % self.horizon)
            raise Abort()
        return c

    def _enabled(self, me):
        en = []
        for t in self.threads:
            if t.status == "ready":
                en.append(t.tid)
            elif t.status == "blocked" and t.blocked_on.owner is None:
                en.append(t.tid)
        if me is not None and me in en:
            en.remove(me)
            en.insert(0, me)
        return en

    def _abort(self, status, detail):
        if not self.aborting:
            self.aborting = True
            self.status = status
            self.detail = detail
            self.done_evt.set()

    def _switch(self, me, nxt):
        """Hand the baton from `me` (may be None = controller/finished) to nxt."""
        self.running = nxt
        self.trace.append(nxt)
        self.threads[nxt].sem.release()
        if me is not None:
            self.threads[me].sem.acquire()
            if self.aborting:
                raise Abort()

    def point(self, me):
        """Scheduling point reached by the running thread `me`."""
        if self.aborting:
            raise Abort()
        en = self._enabled(me)
        c = self._choose(len(en), True)
        nxt = en[c]
        if nxt != me:
            self._switch(me, nxt)
        else:
            self.trace.append(me)

    # -- locks
    def lock_acquire(self, lock, me, blocking=True):
        while True:
            if self.aborting:
                raise Abort()
            if lock.owner is None or lock.owner == me:
                lock.owner = me
                lock.count += 1
                return True
            if not blocking:
                return False
            t = self.threads[me]
            t.status = "blocked"
            t.blocked_on = lock
            en = self._enabled(None)
            if not en:
                held = [(l.owner, l.count) for l in ALL_LOCKS if l.owner is not None]
                waiting = [(x.tid, x.blocked_on.owner) for x in self.threads if x.status == "blocked"]
                self._abort("deadlock", "no enabled thread: waiting (thread, lock owner) = %r; held = %r" % (waiting, held))
                raise Abort()
            c = self._choose(len(en), False)
            self._switch(me, en[c])
            t.status = "ready"
            t.blocked_on = None

    def lock_release(self, lock, me):
        if lock.owner != me:
            if self.aborting:
                return
            raise RuntimeError("cannot release un-acquired lock")
        lock.count -= 1
        if lock.count == 0:
            lock.owner = None

    # -- tracing
    def _global_trace(self, frame, event, arg):
        if event != "call":
            return None
        me = self.idents.get(threading.get_ident())
        if me is None:
            return None
        t = self.threads[me]
        if t.invisible:
            return None
        co = frame.f_code
        if not co.co_filename.startswith(LIB_PREFIX):
            return None
        if self.reduction and _is_invisible(co):
            t.invisible += 1
            return self._invisible_local
        return self._visible_local

    def _visible_local(self, frame, event, arg):
        if event == "line":
            me = self.idents.get(threading.get_ident())
            if me is not None and not self.threads[me].invisible:
                self.point(me)
        return self._visible_local

    def _invisible_local(self, frame, event, arg):
        if event == "return":
            me = self.idents.get(threading.get_ident())
            if me is not None:
                self.threads[me].invisible -= 1
        return self._invisible_local

    # -- thread body wrapper
    def _run_thread(self, t):
        self.idents[threading.get_ident()] = t.tid
        t.sem.acquire()  # wait for the baton
        try:
            if self.aborting:
                raise Abort()
            sys.settrace(self._global_trace)
            try:
                t.result = t.body()
            finally:
                sys.settrace(None)
        except Abort:
            t.status = "done"
            return
        except BaseException as e:  # noqa: BLE001
            t.result = ("harness-exc", repr(e))
        t.status = "done"
        # hand the baton on
        if self.aborting:
            return
        try:
            en = self._enabled(None)
            if not en:
                if all(x.status == "done" for x in self.threads):
                    self.done_evt.set()
                else:
                    waiting = [(x.tid, x.blocked_on.owner) for x in self.threads if x.status == "blocked"]
                    self._abort("deadlock", "thread %d finished; remaining threads blocked: %r" % (t.tid, waiting))
                return
            c = self._choose(len(en), False)
            self._switch(None, en[c])
        except Abort:
            return

    def run(self):
        global _current
        assert _current is None
        _current = self
        try:
            for t in self.threads:
                t.thread = threading.Thread(target=self._run_thread, args=(t,), daemon=True)
                t.thread.start()
            # wait until every thread is parked on its semaphore (idents registered)
            t0 = time.time()
            while len(self.idents) < len(self.threads):
                time.sleep(0.0002)
                if time.time() - t0 > 5:
                    self._abort("timeout", "threads did not start")
                    break
            if not self.aborting:
                try:
                    en = self._enabled(None)
                    c = self._choose(len(en), False)
                    self._switch(None, en[c])
                except Abort:
                    pass
            if not self.done_evt.wait(self.watchdog):
                self._abort("timeout", "watchdog: execution did not finish in %.0fs (a real lock missed by the interposition?)" % self.watchdog)
            if self.aborting:
                for t in self.threads:
                    t.sem.release()
                for t in self.threads:
                    t.thread.join(0.5)
            else:
                for t in self.threads:
                    t.thread.join(5)
        finally:
            _current = None
        return self

    def clean(self):
        return self.status == "ok" and all(t.status == "done" for t in self.threads)


# --------------------------------------------------------------------------------------
# Search
# --------------------------------------------------------------------------------------


def preemption_costs(points, choices):
    """number of preemptions before each point"""
    out = []
    p = 0
    for (n, running_enabled), c in zip(points, choices):
        out.append(p)
        if running_enabled and c != 0:
            p += 1
    return out


def explore(run_one, bound, max_executions=None, on_execution=None):
    """DFS over choice prefixes.  run_one(prefix) -> dict with 'points', 'choices' (+ whatever).

    Returns (executions, nodes, steps, capped)."""
    stack = [()]
    executions = nodes = steps = 0
    capped = False
    while stack:
        prefix = stack.pop()
        if max_executions is not None and executions >= max_executions:
            capped = True
            break
        x = run_one(prefix)
        executions += 1
        pts, ch = x["points"], x["choices"]
        steps += len(ch)
        nodes += len(ch) - len(prefix)
        if on_execution is not None:
            stop = on_execution(prefix, x)
            if stop:
                continue
        costs = preemption_costs(pts, ch)
        for i in range(len(prefix), len(pts)):
            n, running_enabled = pts[i]
            if n <= 1:
                continue
            cost = costs[i] + (1 if running_enabled else 0)
            if cost > bound:
                continue
            for alt in range(1, n):
                stack.append(tuple(ch[:i]) + (alt,))
    return executions, nodes, steps, capped
