"""Execution servers: run requests in a forked child that is retired as soon as it is dirty.

The parent (a task worker) never executes library operations itself, so every child is
forked from pristine class-level state.  A child that reports `dirty` (any violation, an
aborted schedule, a leaked context ...) exits after answering and the next request gets a
new child.
"""
import os
import pickle
import signal
import struct
import sys
import traceback


class ExplorerError(Exception):
    """The harness itself failed (never a property violation)."""


def _send(fd, obj):
    data = pickle.dumps(obj, protocol=pickle.HIGHEST_PROTOCOL)
    os.write(fd, struct.pack("<I", len(data)))
    off = 0
    while off < len(data):
        off += os.write(fd, data[off:])


def _read_exact(fd, n):
    chunks = []
    while n:
        b = os.read(fd, n)
        if not b:
            raise EOFError
        chunks.append(b)
        n -= len(b)
    return b"".join(chunks)


def _recv(fd):
    (n,) = struct.unpack("<I", _read_exact(fd, 4))
    return pickle.loads(_read_exact(fd, n))


class Server:
    def __init__(self, handler, recycle=5000, on_start=None):
        self.handler = handler
        self.recycle = recycle
        self.on_start = on_start
        self.pid = None
        self.served = 0
        self.spawned = 0

    def _spawn(self):
        p2c_r, p2c_w = os.pipe()
        c2p_r, c2p_w = os.pipe()
        sys.stdout.flush()
        sys.stderr.flush()
        pid = os.fork()
        if pid == 0:
            os.close(p2c_w)
            os.close(c2p_r)
            code = 0
            try:
                if self.on_start:
                    self.on_start()
                while True:
                    try:
                        req = _recv(p2c_r)
                    except EOFError:
                        break
                    try:
                        resp, dirty = self.handler(req)
                        _send(c2p_w, ("dirty" if dirty else "ok", resp))
                    except BaseException as e:  # noqa: BLE001
                        _send(c2p_w, ("err", "%s\n%s" % (e, traceback.format_exc())))
                        dirty = True
                    if dirty:
                        break
            except BaseException:  # noqa: BLE001
                code = 3
            finally:
                try:
                    from . import env
                    env.cleanup_scratch()
                finally:
                    os._exit(code)
        os.close(p2c_r)
        os.close(c2p_w)
        self.pid, self.w, self.r = pid, p2c_w, c2p_r
        self.served = 0
        self.spawned += 1

    def _retire(self):
        if self.pid is None:
            return
        try:
            os.close(self.w)
        except OSError:
            pass
        try:
            os.close(self.r)
        except OSError:
            pass
        try:
            os.waitpid(self.pid, 0)
        except ChildProcessError:
            pass
        self.pid = None

    def call(self, req):
        if self.pid is not None and self.served >= self.recycle:
            self._retire()
        if self.pid is None:
            self._spawn()
        _send(self.w, req)
        try:
            tag, resp = _recv(self.r)
        except EOFError:
            self._retire()
            raise ExplorerError("execution child died while serving %r" % (req,))
        self.served += 1
        if tag == "err":
            self._retire()
            raise ExplorerError("execution child failed: %s" % resp)
        if tag == "dirty":
            self._retire()
        return resp

    def close(self):
        self._retire()
