"""Offline setup: private numpy for C19 (never into /venv), and an engine self-test."""
import glob
import os
import subprocess
import sys

from . import env


def main():
    deps = os.path.join(env.VERIF, ".deps")
    if not os.path.isdir(os.path.join(deps, "numpy")):
        wheels = "/opt/veriftools/wheels"
        cmd = [sys.executable, "-m", "pip", "install", "--no-index", "--find-links", wheels,
               "--target", deps, "--no-deps", "--quiet", "numpy"]
        r = subprocess.run(cmd, env={**os.environ, "PIP_NO_INDEX": "1"})
        if r.returncode != 0:
            print("setup: numpy could not be installed from the wheelhouse; C19 runs its pure-Python pool only")
    env.lib()
    print("setup: library imported from", env.LIBDIR)
    return 0
