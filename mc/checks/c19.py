"""C19 How a value is classified never depends on what was processed before."""
import collections.abc as abc
import itertools
import json
import os
import subprocess
import sys
import warnings

from .. import env, model
from ..runner import new_result

_deps = os.environ.get("VERIF_DEPS") or os.path.join(env.VERIF, ".deps")
if os.path.isdir(_deps) and _deps not in sys.path:
    sys.path.append(_deps)  # private numpy, for this check only

PROPERTY = "C19"
LEVEL = "exploration"
WITH_NUMPY = True
RULE = ("pool of diversely-typed values (built-ins, str/int/dict/list/tuple subclasses, user Mapping and Sequence classes, "
        "a class registered as both, a class that is neither, two distinct classes with the same name, an object lying about "
        "__class__, numpy 0-d/1-d/2-d arrays, scalars and ndarray SUBCLASSES) x channels {each validator, is_base_type, "
        "constructor, setitem, reset/merge, merge into an existing nested child, 'a retained child survives a merge'}; EVERY warm-up history of bounded length over (channel, value) events is run in a "
        "child forked from a parent that imported the library and processed nothing, then EVERY probe in its own grandchild; "
        "the outcome (accept / exception class / category / stored form) must equal the probe's outcome in a genuinely fresh "
        "interpreter; non-trivial = distinct (history, probe) pairs")
BOUNDS = {"quick": "all warm-up histories of length <= 1 x all probes over 8 channels", "thorough": "13 channels; length <= 2 with the second event over every value through 2 channels"}
ASSUMPTIONS = ["numpy from the offline wheelhouse is installed privately under /verif/.deps for this check only",
               "the pool of types is finite; outcomes are compared as (status, exception class, stored plain form)"]


# ---- the pool (module level so that forked children and the fresh interpreter build the same values) ----

class StrSub(str):
    pass


class IntSub(int):
    pass


class DictSub(dict):
    pass


class ListSub(list):
    pass


class TupleSub(tuple):
    pass


class UserMapping(abc.Mapping):
    def __init__(self, d=None):
        self._d = d if d is not None else {"m": 1}

    def __getitem__(self, k):
        return self._d[k]

    def __iter__(self):
        return iter(self._d)

    def __len__(self):
        return len(self._d)


class UserSequence(abc.Sequence):
    def __init__(self, l=None):
        self._l = l if l is not None else [1, 2]

    def __getitem__(self, i):
        return self._l[i]

    def __len__(self):
        return len(self._l)


class Both:
    """registered as Mapping AND Sequence"""

    def __init__(self):
        self._d = {"b": 1}

    def __getitem__(self, k):
        return self._d[k]

    def __iter__(self):
        return iter(self._d)

    def __len__(self):
        return len(self._d)

    def keys(self):
        return self._d.keys()

    def items(self):
        return self._d.items()

    def values(self):
        return self._d.values()


abc.Mapping.register(Both)
abc.Sequence.register(Both)


class Neither:
    pass


class TupleMapping(tuple):
    """a tuple subclass that is ALSO registered as a Mapping (row-like records)"""

    def keys(self):
        return range(len(self))

    def items(self):
        return list(enumerate(self))

    def values(self):
        return list(self)


abc.Mapping.register(TupleMapping)


class DictSeq(dict):
    """a dict subclass that is ALSO registered as a Sequence"""


abc.Sequence.register(DictSeq)


class FloatSub(float):
    pass


def _twins():
    class Twin(abc.Mapping):
        def __getitem__(self, k):
            return {"t": 1}[k]

        def __iter__(self):
            return iter({"t": 1})

        def __len__(self):
            return 1

    first = Twin

    class Twin(abc.Sequence):  # noqa: F811 - same name, different class
        def __getitem__(self, i):
            return [7, 8][i]

        def __len__(self):
            return 2

    return first, Twin


TwinMapping, TwinSequence = _twins()


class Liar:
    """type(obj) is Liar, but obj.__class__ claims to be a dict"""

    @property
    def __class__(self):
        return dict


def pool(with_numpy=True):
    p = {
        "int": lambda: 3, "str": lambda: "s", "none": lambda: None, "float": lambda: 1.5, "bool": lambda: True,
        "dict": lambda: {"a": 1}, "list": lambda: [1, 2], "tuple": lambda: (1, 2), "bytes": lambda: b"ab",
        "StrSub": lambda: StrSub("s"), "IntSub": lambda: IntSub(3), "DictSub": lambda: DictSub(a=1),
        "ListSub": lambda: ListSub([1, 2]), "TupleSub": lambda: TupleSub((1, 2)),
        "UserMapping": lambda: UserMapping(), "UserSequence": lambda: UserSequence(), "Both": lambda: Both(),
        "Neither": lambda: Neither(), "TwinMapping": lambda: TwinMapping(), "TwinSequence": lambda: TwinSequence(),
        "Liar": lambda: Liar(), "set": lambda: {1}, "complex": lambda: 1 + 2j,
        "TupleMapping": lambda: TupleMapping((10, 20)), "DictSeq": lambda: DictSeq(a=1), "FloatSub": lambda: FloatSub(2.5),
        "inf": lambda: float("inf"), "nan": lambda: float("nan"), "bigint": lambda: 2 ** 70, "emptydict": lambda: {},
        "emptylist": lambda: [], "nested": lambda: {"a": [1, {"b": (2, 3)}]},
        "dotted": lambda: {"q.r": 1}, "nested_dotted": lambda: {"a": {"q.r": 1}},
    }
    if with_numpy:
        try:
            import numpy as np
        except ImportError:
            return p
        p.update({
            "np0d": lambda: np.array(3), "np1d": lambda: np.array([1, 2]), "np2d": lambda: np.array([[1], [2]]),
            "npfloat": lambda: np.float64(1.5), "npint": lambda: np.int64(3), "npbool": lambda: np.bool_(True),
            "npcomplex": lambda: np.complex128(1 + 2j), "np0dcomplex": lambda: np.array(1 + 2j),
            "ma0d": lambda: np.ma.masked_array(3), "ma1d": lambda: np.ma.masked_array([1, 2]),
            "ndsub0d": lambda: np.array(3).view(NdSub), "ndsub1d": lambda: np.array([1, 2]).view(NdSub),
            "npstr1d": lambda: np.array(["a", "b"]),
        })
    return p


try:
    import numpy as _np

    class NdSub(_np.ndarray):
        pass
except ImportError:  # numpy absent: the numpy part of the pool is dropped
    NdSub = None

CHANNELS = ("json_format_validator", "require_string_key", "no_dot_in_key", "json_attr_dict_validator",
            "is_base_type_dict", "is_base_type_list", "ctor_dict", "ctor_list", "setitem_dict", "append_list",
            "reset_dict", "reset_list", "attr_setitem")


def apply_channel(channel, value):
    """-> JSON-able outcome"""
    L = env.lib(True)
    from synced_collections import validators
    from synced_collections.backends import collection_json as cj

    def stored(x):
        p = model.to_plain(x())
        return ["ok", model.canon_json(p)]

    try:
        with warnings.catch_warnings():
            warnings.simplefilter("ignore")
            if channel in ("json_format_validator", "require_string_key", "no_dot_in_key", "json_attr_dict_validator"):
                fn = getattr(validators, channel, None) or getattr(cj, channel, None)
                if fn is None:
                    return ["channel-unavailable"]  # the function was renamed: the collection channels still cover it
                fn(value)
                return ["ok"]
            if channel == "is_base_type_dict":
                return ["ok", bool(cj.JSONDict.is_base_type(value))]
            if channel == "is_base_type_list":
                return ["ok", bool(cj.JSONList.is_base_type(value))]
            if channel == "ctor_dict":
                return stored(cj.JSONDict(filename=env.fresh_name(), data={"k": value}))
            if channel == "ctor_list":
                return stored(cj.JSONList(filename=env.fresh_name(), data=[value]))
            if channel == "setitem_dict":
                x = cj.JSONDict(filename=env.fresh_name())
                x["k"] = value
                return stored(x)
            if channel == "append_list":
                x = cj.JSONList(filename=env.fresh_name())
                x.append(value)
                return stored(x)
            if channel == "reset_dict":
                x = cj.JSONDict(filename=env.fresh_name())
                x["k"] = {"old": 1}
                x.reset({"k": value})
                return stored(x)
            if channel == "reset_list":
                x = cj.JSONList(filename=env.fresh_name())
                x.append([0])
                x.reset([value])
                return stored(x)
            if channel == "attr_setitem":
                x = cj.JSONAttrDict(filename=env.fresh_name())
                x["k"] = value
                return stored(x)
            if channel in ("attr_merge_child", "dict_merge_child"):
                # the value is merged into a position that already holds a nested child (update -> in-place merge)
                x = (cj.JSONAttrDict if channel.startswith("attr") else cj.JSONDict)(filename=env.fresh_name())
                x["k"] = {"old": 1, "sub": {"s": 1}}
                x.update({"k": value})
                return stored(x)
            if channel in ("held_child_attr", "held_child_dict", "held_child_list"):
                # a retained nested child must survive a merge of plain data of its own kind: same object, and a write
                # through it reaches the resource
                if channel == "held_child_list":
                    x = cj.JSONList(filename=env.fresh_name())
                    x.append({"old": 1})
                    c = x[0]
                    x.reset([value if type(value) is dict and value and all("." not in k for k in value) else {"new": 2}])
                    same = x[0] is c
                else:
                    x = (cj.JSONAttrDict if channel.endswith("attr") else cj.JSONDict)(filename=env.fresh_name())
                    x["k"] = {"old": 1}
                    c = x["k"]
                    x.update({"k": value if type(value) is dict and value and all("." not in k for k in value) else {"new": 2}})
                    same = x["k"] is c
                c["w"] = 3
                return ["ok", same, model.canon_json(model.to_plain(type(x)(filename=x.filename)()))]
    except Exception as e:  # noqa: BLE001
        return ["raise", type(e).__name__]
    raise ValueError(channel)


QUICK_CHANNELS = ("json_format_validator", "json_attr_dict_validator", "is_base_type_dict", "is_base_type_list",
                  "ctor_dict", "setitem_dict", "append_list", "reset_dict")
_TIER = ["thorough"]


# channels about merging into / keeping nested children; combined with the few values that matter for them
MERGE_CHANNELS = ("attr_merge_child", "dict_merge_child", "held_child_attr", "held_child_dict", "held_child_list")
MERGE_VALUES = ("dict", "list", "none", "emptydict", "dotted", "nested_dotted", "DictSub", "UserMapping")


def events(with_numpy=True):
    chans = QUICK_CHANNELS if _TIER[0] == "quick" else CHANNELS
    p = pool(with_numpy)
    return [(c, v) for v in p for c in chans] + [(c, v) for v in MERGE_VALUES if v in p for c in MERGE_CHANNELS]


def _fork_outcome(fn):
    r, w = os.pipe()
    pid = os.fork()
    if pid == 0:
        code = 0
        try:
            os.close(r)
            os.write(w, json.dumps(fn()).encode())
        except BaseException as e:  # noqa: BLE001
            os.write(w, json.dumps(["harness-error", "%s: %s" % (type(e).__name__, e)]).encode())
            code = 1
        finally:
            try:
                env.cleanup_scratch()
            finally:
                os._exit(code)
    os.close(w)
    data = b""
    while True:
        b = os.read(r, 65536)
        if not b:
            break
        data += b
    os.close(r)
    os.waitpid(pid, 0)
    return json.loads(data) if data else ["harness-error", "no data"]


def fresh_baseline(evs):
    """Outcome of every probe in a GENUINELY fresh interpreter (one subprocess per probe batch of one value)."""
    code = ("import sys, json; sys.path.insert(0, %r); sys.dont_write_bytecode = True\n"
            "from mc import env; env.lib(True)\n"
            "from mc.checks import c19\n"
            "c, v = sys.argv[1], sys.argv[2]\n"
            "print(json.dumps(c19.apply_channel(c, c19.pool()[v]())))\n") % env.VERIF
    out = {}
    for c, v in evs:
        p = subprocess.run([sys.executable, "-c", code, c, v], capture_output=True, text=True,
                           env={**os.environ, "PYTHONDONTWRITEBYTECODE": "1"})
        try:
            out[(c, v)] = json.loads(p.stdout.strip().splitlines()[-1])
        except Exception:  # noqa: BLE001
            out[(c, v)] = ["harness-error", (p.stderr or p.stdout)[-300:]]
    return out


def plan(tier, seed):
    env.lib(True)
    _TIER[0] = tier
    evs = events()
    p = pool()
    # outcome of every probe in a child forked from this pristine process (library imported, nothing processed)
    base = {"%s|%s" % pr: _fork_outcome(lambda pr=pr: apply_channel(pr[0], p[pr[1]]())) for pr in evs}
    global _BASE
    _BASE = base
    tasks = []
    # one task per warm-up FIRST event; length-2 histories extend it with every second event (thorough)
    for i, ev in enumerate(evs):
        tasks.append({"kind": "c19", "label": "warm/%s/%s" % ev, "first": ev, "tier": tier})
    tasks.append({"kind": "c19", "label": "warm/none", "first": None, "tier": tier})
    return tasks


_BASE = {}


def baseline_for(evs):
    """fresh-interpreter baselines, cached on disk per run of the check (keyed by library tree state)"""
    import hashlib

    h = hashlib.md5()
    for root, _, files in sorted(os.walk(env.LIBDIR)):
        for f in sorted(files):
            if f.endswith(".py"):
                h.update(open(os.path.join(root, f), "rb").read())
    h.update(open(__file__, "rb").read())
    key = h.hexdigest()
    path = os.path.join("/dev/shm" if os.path.isdir("/dev/shm") else "/tmp", "scverif-c19-%s-%d.json" % (key, os.getppid()))
    if os.path.exists(path):
        try:
            d = json.load(open(path))
            return {tuple(k.split("|")): v for k, v in d.items()}
        except Exception:  # noqa: BLE001
            pass
    return None


def finish(agg, tier, seed):
    # remove the per-run baseline cache
    import glob

    for f in glob.glob("/dev/shm/scverif-c19-*-%d.json" % os.getpid()):
        try:
            os.unlink(f)
        except OSError:
            pass


def run_task(task):
    env.lib(True)
    _TIER[0] = task["tier"]
    evs = events()
    res = new_result()
    first = task["first"]
    p = pool()
    histories = [[first]] if first else [[]]
    if first and task["tier"] != "quick":
        # length-2 warm-ups: the second event ranges over every value through two channels (one validator, one
        # collection) - the full square (every event twice) is ~560 000 forked probes per task and never finished
        histories += [[first, e2] for e2 in evs if e2[0] in ("json_format_validator", "setitem_dict")]
    # baselines: pristine forked child for every probe, plus genuinely fresh interpreters for this task's own value
    base = {tuple(k.split("|")): v for k, v in _BASE.items()}  # inherited from the planning process by fork
    if not base:
        for pr in evs:
            base[pr] = _fork_outcome(lambda pr=pr: apply_channel(pr[0], p[pr[1]]()))
    if first:
        fresh = fresh_baseline([first])
        if fresh[first] != base[first]:
            res["violations"].append(_viol([], first, "fresh-vs-forked", "fresh interpreter gives %r, pristine fork gives %r" % (fresh[first], base[first])))
    for hist in histories:
        def child():
            for c, v in hist:
                apply_channel(c, p[v]())
            out = {}
            for pr in evs:
                out["%s|%s" % pr] = _fork_outcome(lambda pr=pr: apply_channel(pr[0], p[pr[1]]()))
            return out
        got = _fork_outcome(child)
        if isinstance(got, list):
            res["errors"].append("history %r: %r" % (hist, got))
            continue
        for pr in evs:
            res["evaluations"] += 1
            g = got["%s|%s" % pr]
            if g != base[pr]:
                if len(res["violations"]) < 40:
                    res["violations"].append(_viol(hist, pr, "history-dependent",
                                                   "after warm-up %r the probe %r gives %r; in a fresh process it gives %r" % (hist, pr, g, base[pr])))
    res["nontrivial"] = res["evaluations"]
    res["states"] = len(histories)
    res["samples"] = [{"warmup": [list(e) for e in histories[-1]], "probes": len(evs), "pool": sorted(p)[:40]}]
    outc = {}
    for pr, o in base.items():
        outc[o[0]] = outc.get(o[0], 0) + 1
    res["outcomes"] = outc
    return res


def _viol(hist, probe, kind_, detail):
    def fam(v):
        return "numpy" if v.startswith(("np", "ma", "ndsub")) else "python"
    sig = "%s|%s|warm:%s|probe:%s:%s|%s" % (PROPERTY, fam(probe[1]), "+".join(v for _, v in hist) or "-", probe[0], probe[1], kind_)
    return {"signature": sig, "detail": detail,
            "replay": {"engine": "c19", "module": __name__, "history": [list(e) for e in hist], "probe": list(probe)}}


def replay(doc):
    env.lib(True)
    p = pool()
    probe = tuple(doc["probe"])
    hist = [tuple(e) for e in doc["history"]]
    base = _fork_outcome(lambda: apply_channel(probe[0], p[probe[1]]()))

    def child():
        for c, v in hist:
            apply_channel(c, p[v]())
        return apply_channel(probe[0], p[probe[1]]())
    got = _fork_outcome(child)
    if got != base:
        return [("history-dependent", "after %r probe %r gives %r, fresh gives %r" % (hist, probe, got, base))]
    return []
