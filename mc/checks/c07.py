"""C07 A buffered flush never silently overwrites a file changed by someone else."""
import sys

from .. import env, model, seq, seqcheck

PROPERTY = "C07"
LEVEL = "model_checking"
RULE = ("n files, one object each, inside {backend-wide, per-object, per-object nested in backend-wide (also with an "
        "explicit capacity)} contexts; BFS over every interleaving of, per file: optional outside change before the first "
        "buffered access, first access (read or content-changing write), optional later write, optional outside change "
        "after it; then the contexts are left in every order, optionally preceded by set_buffer_capacity(0) which forces "
        "every modified file out under any eviction policy; oracle: an exception occurs iff some file is modified-in-buffer "
        "and changed outside after entering the buffer, MetadataError/BufferedError names EXACTLY those files, outside "
        "content survives, read-only files are not rewritten, clean modified files are written; afterwards size 0, no active "
        "context, capacity restored, every object shows the disk content unbuffered AND in a subsequent buffered context; "
        "non-trivial = distinct reached states; family ff: every sequence (bounded length) of reads/writes/outside changes on "
        "2 files and forced flushes followed by MORE operations, in 4 context shapes, judged by 'an outside change or a write "
        "disappears only after an error naming the file'")
BOUNDS = {"quick": "n=2 files (also with a first file that does not exist yet), 4 context shapes, Buffered/MemoryBuffered x dict + list(cls only); ff: sequences <= 4",
          "thorough": "n=2 all 8 classes all shapes (also with a first file that does not exist yet); n=3 for Buffered/MemoryBuffered dict; ff: sequences <= 5, all 8 classes"}
ASSUMPTIONS = ["an outside change always alters (size, mtime_ns) - the tuple the library records; the outside writer produces larger "
               "mtimes with arbitrary sizes AND smaller mtimes with an unchanged size (restored backup), never an identical tuple",
               "family ff (operations continue after a forced flush) is judged by the property itself - outside changes and writes "
               "may vanish only after an error naming the file - because what a forced flush keeps buffered is eviction policy",
               "outside rewrites always change (size, mtime_ns): the library's detection mechanism; the harness forces strictly increasing mtimes",
               "writes always change content (a write that restores the original bytes makes 'would write' implementation-defined)",
               "after the policy-independent forced flush only context exits follow"]

INIT = {"dict": {"k": 0}, "list": [0, {"x": 0}]}
SHAPES = {
    "cls": (("enter_cls", None),),
    "cls-cap": (("enter_cls", 10 ** 6),),
    "obj": "OBJ",
    "obj-in-cls": "OBJ-IN-CLS",
}


def shape_prefix(shape, n):
    if shape == "obj":
        return tuple(("enter", o) for o in range(n))
    if shape == "obj-in-cls":
        return (("enter_cls", None),) + tuple(("enter", o) for o in range(n))
    return SHAPES[shape]


def _ext_count(ref, r):
    d = ref.disk[r]
    if d is env.ABSENT:
        return 0
    if isinstance(d, dict):
        return d.get("ext", 0)
    return int(str(d[0])[3:]) if isinstance(d[0], str) and d[0].startswith("ext") else 0


def alphabet(ref, task):
    n = len(ref.disk)
    kind_ = ref.rootkind
    ev = []
    leaving = ref.n_exits > 0 or ref.n_setcap > 0
    if not leaving:
        for r in range(n):
            o = r
            cnt = _ext_count(ref, r)
            extev = ("ext", r, ("ext",) if kind_ == "dict" else (0,), cnt + 1 if kind_ == "dict" else "ext%d" % (cnt + 1))
            if ref.disk[r] is env.ABSENT:
                # the file does not exist (yet): the outside writer creates it
                extev = ("ext", r, (), {"ext": 1} if kind_ == "dict" else ["ext1", {"x": 0}])
            wr = ("op", o, "setitem", ("w", 1)) if kind_ == "dict" else ("op", o, "append", ("w",))
            wr2 = ("op", o, "setitem", ("w2", 2)) if kind_ == "dict" else ("op", o, "append", ("w2",))
            rd = ("op", o, "call", ())
            # the same kind of outside change made by a writer that preserves an OLD timestamp (restored backup,
            # skewed clock) and keeps the byte size: one digit replaced by another
            d = ref.disk[r]
            oldev = None
            if kind_ == "dict" and isinstance(d, dict) and d.get("k") == 0:
                oldev = ("ext", r, ("k",), 7, "older")
            elif kind_ == "list" and isinstance(d, list) and len(d) > 1 and d[1] == {"x": 0}:
                oldev = ("ext", r, (1, "x"), 7, "older")
            if not ref.in_buf[r]:
                if cnt == 0:
                    ev.append(extev)
                ev += [rd, wr]
            else:
                if not ref.ext_after[r]:
                    ev.append(extev)
                    if oldev and task["extra"].get("older", True):
                        ev.append(oldev)
                if not ref.changed_w[r]:
                    ev.append(wr)
                elif task["extra"].get("second_write") and not isinstance(ref.buf[r], list) and "w2" not in ref.buf[r]:
                    ev.append(wr2)
        if any(ref.in_buf):
            ev.append(("setcap", 0))
    # leaving (or start leaving): LIFO over kinds is not required by the library; every order of object exits
    entered = [o for o in range(len(ref.obj_res)) if ref.obj_depth[o] > 0]
    if entered:
        if leaving or any(ref.in_buf) or True:
            ev += [("exit", o) for o in entered]
    elif ref.cls_depth:
        ev.append(("exit_cls",))
    return ev


class Hooks:
    def before_event(self, run, ev, last):
        if not last:
            return
        run.scratch["snaps"] = None
        if ev[0] in ("exit", "exit_cls", "setcap"):
            ref = run.ref
            run.scratch["snaps"] = {r: run.world.resources[r].snapshot() for r in range(len(ref.disk))
                                    if ref.in_buf[r] and not ref.changed_w[r]}

    def after_event(self, run, ev, outcome, exp, info, last):
        out = []
        if last and run.scratch.get("snaps"):
            for r, s0 in run.scratch["snaps"].items():
                now = run.world.resources[r].snapshot()
                if now != s0:
                    out.append(("readonly-rewritten", "%r rewrote file %d whose buffered copy was only read: %r -> %r"
                                % (ev, r, seq._short(s0), seq._short(now))))
        return out

    def probe(self, run):
        out = []
        ref, world = run.ref, run.world
        k = world.klass
        try:
            # leave whatever is still entered, following the reference's expectations
            guard = 0
            while (any(ref.obj_depth) or ref.cls_depth) and guard < 10:
                guard += 1
                entered = [o for o in range(len(ref.obj_res)) if ref.obj_depth[o] > 0]
                ev = ("exit", entered[-1]) if entered else ("exit_cls",)
                oc = world.apply(ev)
                exp, info = ref.apply(ev)
                if exp.mode == "exc":
                    why = seq._exc_name_matches(exp, oc) or seq._check_conflict_names(world, oc[1], info["conflicts"])
                    if why:
                        out.append(("ctxerr", "closing %r: %s" % (ev, why)))
                elif oc[0] == "exc":
                    out.append(("ctxerr", "closing %r raised %s: %s" % (ev, type(oc[1]).__name__, oc[1])))
            for r in range(len(world.resources)):
                why = seq.compare_disk(ref, world, r)
                if why:
                    out.append(("final-file", "after leaving every context: " + why))
            if k.get_current_buffer_size() != 0:
                out.append(("not-pristine", "buffer size %r after every context exited" % k.get_current_buffer_size()))
            if k.backend_is_buffered():
                out.append(("not-pristine", "backend_is_buffered() after every context exited"))
            if ref.n_setcap == 0 and k.get_buffer_capacity() != env.default_capacity(run.cfg.clsname):
                out.append(("capacity-not-restored", "capacity is %r after the contexts exited, was %r before"
                            % (k.get_buffer_capacity(), env.default_capacity(run.cfg.clsname))))
            for o in range(len(world.objects)):
                got = model.to_plain(world.objects[o]())
                want = ref.logical_or_empty(ref.obj_res[o])
                if not model.exact_eq(got, want):
                    out.append(("final-view", "object %d shows %r after the contexts exited, disk/reference %r" % (o, got, want)))
            # a SUBSEQUENT buffered context must serve the disk content, not a stale entry
            if ref.n_setcap:
                k.set_buffer_capacity(env.default_capacity(run.cfg.clsname))
            with k.buffer_backend():
                for o in range(len(world.objects)):
                    got = model.to_plain(world.objects[o]())
                    want = ref.logical_or_empty(ref.obj_res[o])
                    if not model.exact_eq(got, want):
                        out.append(("stale-entry", "in a later buffered context object %d shows %r, disk holds %r" % (o, got, want)))
            if k.get_current_buffer_size() != 0:
                out.append(("not-pristine", "buffer size %r after a later read-only context" % k.get_current_buffer_size()))
        except Exception as e:  # noqa: BLE001
            out.append(("probe-error", "%s: %s" % (type(e).__name__, e)))
        return out


def make_hooks(name, task):
    return Hooks()


def plan(tier, seed):
    tasks = []
    if tier == "quick":
        combos = [(c, sh, 2) for c in ("BufferedJSONDict", "MemoryBufferedJSONDict") for sh in ("cls-cap", "obj", "obj-in-cls")] + \
                 [(c, "cls", 2) for c in ("BufferedJSONList", "MemoryBufferedJSONList")]
    else:
        combos = [(c, sh, 2) for fam in env.BUFFERED_FAMILIES for c in env.JSON_FAMILIES[fam] for sh in SHAPES] + \
                 [(c, sh, 3) for c in ("BufferedJSONDict", "MemoryBufferedJSONDict") for sh in ("cls", "obj")]
    # the same with a first file that does not exist when it enters the buffer (the outside writer CREATES it)
    combos += [(c, sh, -2) for c in (("BufferedJSONDict", "MemoryBufferedJSONDict", "MemoryBufferedJSONList") if tier == "quick" else
                                     [c for fam in env.BUFFERED_FAMILIES for c in env.JSON_FAMILIES[fam]])
               for sh in (("cls", "obj") if tier == "quick" else SHAPES)]
    for c, shape, n in combos:
        kind_ = env.kind_of(c)
        absent_first = n < 0
        n = abs(n)
        init = ((env.ABSENT,) + (INIT[kind_],) * (n - 1)) if absent_first else (INIT[kind_],) * n
        cfg = seq.Config(c, initial=init, objects=tuple(range(n)), prefix=shape_prefix(shape, n),
                         label="%s/%s/%dfiles%s" % (c, shape, n, "-1absent" if absent_first else ""))
        depth = 4 * n + (n + 2 if shape != "cls" and shape != "cls-cap" else 2)
        kw = dict(label=cfg.label, cfg=cfg, alphabet="alphabet", depth=depth, oracles={"result", "resource", "ctxerr"},
                  hooks="probe", extra={"second_write": tier != "quick" or shape == "obj"})
        if n == 3:
            kw["max_transitions"] = 50000
        tasks += seqcheck.split(4 if n == 2 else 24, **kw)
    ffc = ("BufferedJSONDict", "MemoryBufferedJSONDict", "BufferedJSONList", "MemoryBufferedJSONList") if tier == "quick" else \
        [c for fam in env.BUFFERED_FAMILIES for c in env.JSON_FAMILIES[fam]]
    for c in ffc:
        for sh in FF_SHAPES:
            tasks.append({"kind": "ff", "label": "%s/ff-%s" % (c, sh), "clsname": c, "shape": sh,
                          "maxlen": 4 if tier == "quick" else 5})
    return tasks


# --------------------------------------------------------------------------------------
# Family "ff": life goes on after a capacity-forced flush
# --------------------------------------------------------------------------------------
# The BFS above stops operating once a forced flush happened, because what a forced flush keeps in the buffer
# is eviction policy (the serialized strategy drops what it wrote or never modified, the shared-memory strategy
# keeps every entry), and the exact reference cannot follow both.  This family enumerates EVERY sequence of
# {read, write, outside change} x 2 files and forced flushes (set_buffer_capacity(0), then back to a large
# capacity) up to a length bound, inside each context shape, then leaves the contexts, and judges the run by
# the property itself rather than by an exact model:
#   * an outside change may disappear from the file only if an error naming that file was raised after it;
#   * a write may be missing from the file only if an error naming that file was raised after it;
#   * only BufferedError/MetadataError may be raised, only by flushing events, only naming files that really were
#     changed outside while buffered;
#   * afterwards: size 0, nothing buffered, capacity back, and a later session reads what is on disk.

FF_SYMBOLS = ("R0", "W0", "E0", "R1", "W1", "E1", "F")
FF_SHAPES = ("cls", "obj-in-cls", "obj", "cls-in-obj")


def ff_sequences(maxlen):
    import itertools
    out = []
    for n in range(1, maxlen + 1):
        for seq_ in itertools.product(FF_SYMBOLS, repeat=n):
            if "F" in seq_ and any(x[0] == "E" for x in seq_):
                out.append(seq_)
    return out


def _names(world, exc):
    """indices of the resources an exception names"""
    paths = {getattr(r, "path", None): i for i, r in enumerate(world.resources)}
    got = set()
    files = getattr(exc, "files", None)
    if isinstance(files, dict):
        for f in files:
            if f in paths:
                got.add(paths[f])
    fn = getattr(exc, "filename", None)
    if fn in paths:
        got.add(paths[fn])
    return got


def run_ff(c, shape, symbols):
    kind_ = env.kind_of(c)
    big = 10 ** 6
    # a third file is the ballast that makes every forced flush real (a capacity change only flushes when the
    # reported size exceeds the new capacity, and the shared-memory strategy counts modified files only)
    cfg = seq.Config(c, initial=(INIT[kind_],) * 3, objects=(0, 1, 2), label="%s/ff-%s" % (c, shape))
    world = seq.World(cfg)
    k = world.klass
    out = []
    try:
        prefix = {"cls": [("enter_cls", None)], "obj-in-cls": [("enter_cls", None), ("enter", 0), ("enter", 1)],
                  "obj": [("enter", 0), ("enter", 1), ("enter", 2)],
                  "cls-in-obj": [("enter", 0), ("enter", 1), ("enter_cls", None)]}[shape]
        suffix = {"cls": [("exit_cls",)], "obj-in-cls": [("exit", 1), ("exit", 0), ("exit_cls",)],
                  "obj": [("exit", 2), ("exit", 1), ("exit", 0)],
                  "cls-in-obj": [("exit_cls",), ("exit", 1), ("exit", 0)]}[shape]
        for ev in prefix:
            oc = world.apply(ev)
            if oc and oc[0] == "exc":
                return [("ctxerr", "%r raised %s: %s" % (ev, type(oc[1]).__name__, oc[1]))]
        ext_cnt = [0, 0, 0]
        last_ext = [None, None, None]
        writes = [[], [], []]  # (index, marker)
        errors = []  # (index, set of named resources)
        nw = 0
        events = []
        for s_ in symbols:
            if s_ == "F":
                nw += 1
                events.append(("op", 2, "setitem", ("w%d" % nw, nw)) if kind_ == "dict" else ("op", 2, "append", ("w%d" % nw,)))
                events += [("setcap", 0), ("setcap", big)]
                continue
            r = int(s_[1])
            if s_[0] == "R":
                events.append(("op", r, "call", ()))
            elif s_[0] == "W":
                nw += 1
                events.append(("op", r, "setitem", ("w%d" % nw, nw)) if kind_ == "dict" else ("op", r, "append", ("w%d" % nw,)))
            else:
                events.append(("E", r))
        events += suffix
        for i, ev in enumerate(events):
            if ev[0] == "E":
                r = ev[1]
                ext_cnt[r] += 1
                last_ext[r] = i
                cur = world.resources[r].read()
                if kind_ == "dict":
                    cur["ext"] = ext_cnt[r]
                else:
                    cur[0] = "ext%d" % ext_cnt[r]
                world.resources[r].ext_write(cur)
                continue
            oc = world.apply(ev)
            if ev[0] == "op" and model.is_mutator(ev[2]):
                writes[ev[1]].append((i, ev[3][0]))
            if oc and oc[0] == "exc":
                e = oc[1]
                mro = [t.__name__ for t in type(e).__mro__]
                if "BufferedError" not in mro and "MetadataError" not in mro:
                    out.append(("unexpected-exception", "%r raised %s: %s" % (ev, type(e).__name__, e)))
                    continue
                if ev[0] == "op" and ev[2] == "call":
                    out.append(("read-raised", "a read raised %s: %s" % (type(e).__name__, e)))
                named = _names(world, e)
                errors.append((i, named))
                for r in named:
                    if last_ext[r] is None:
                        out.append(("false-conflict", "%r raised %s naming file %d which nobody changed outside" % (ev, type(e).__name__, r)))
        for r in range(3):
            d = world.resources[r].read()
            ok_shape = isinstance(d, dict) if kind_ == "dict" else isinstance(d, list)
            if not ok_shape:
                out.append(("final-file", "file %d holds %r" % (r, d)))
                continue
            if ext_cnt[r]:
                have = d.get("ext") if kind_ == "dict" else (d[0] if d else None)
                want = ext_cnt[r] if kind_ == "dict" else "ext%d" % ext_cnt[r]
                if have != want and not any(i >= last_ext[r] and r in named for i, named in errors):
                    out.append(("silent-overwrite", "the outside change #%d of file %d is gone (file holds %r) and no error naming the "
                                                    "file was raised after it" % (ext_cnt[r], r, d)))
            for i0, marker in writes[r]:
                present = (marker in d)
                if not present and not any(i >= i0 and r in named for i, named in errors):
                    out.append(("write-lost", "write %r to file %d is not in the file (%r) and no error naming the file was raised "
                                              "after it" % (marker, r, d)))
        if k.get_current_buffer_size() != 0:
            out.append(("not-pristine", "buffer size %r after every context exited" % k.get_current_buffer_size()))
        if k.backend_is_buffered():
            out.append(("not-pristine", "backend_is_buffered() after every context exited"))
        k.set_buffer_capacity(env.default_capacity(c))
        with k.buffer_backend():
            for o in range(3):
                got = model.to_plain(world.objects[o]())
                want = world.resources[o].read()
                if not model.exact_eq(got, want):
                    out.append(("stale-entry", "in a later buffered context object %d shows %r, disk holds %r" % (o, got, want)))
        if k.get_current_buffer_size() != 0:
            out.append(("not-pristine", "buffer size %r after a later read-only context" % k.get_current_buffer_size()))
    except Exception as e:  # noqa: BLE001
        import traceback
        out.append(("probe-error", "%s: %s %s" % (type(e).__name__, e, traceback.format_exc()[-300:])))
    finally:
        seq._teardown(world)
    return out


def run_ff_task(task):
    from .. import isolate
    from ..runner import new_result
    env.lib()
    c, shape = task["clsname"], task["shape"]
    seqs = ff_sequences(task["maxlen"])

    def handler(i):
        v = run_ff(c, shape, seqs[i])
        return v, bool(v)

    server = isolate.Server(handler)
    res = new_result()
    try:
        for i, sq in enumerate(seqs):
            viol = server.call(i)
            res["evaluations"] += 1
            res["transitions"] += len(sq) + 1
            for kind_, detail in viol:
                if len(res["violations"]) < 40:
                    res["violations"].append({"signature": "%s|%s/ff-%s|%s|%s" % (PROPERTY, c, shape, "after-forced-flush", kind_),
                                              "detail": "%s: %s" % (" ".join(sq), detail),
                                              "replay": {"engine": "c07ff", "module": __name__, "clsname": c, "shape": shape,
                                                         "history": list(sq)}})
    finally:
        server.close()
    res["states"] = len(seqs)
    res["nontrivial"] = len(seqs)
    res["max_depth"] = task["maxlen"]
    res["samples"] = [{"class": c, "shape": shape, "sequence": list(seqs[len(seqs) // 2])}]
    res["outcomes"] = {"ff-sequences": len(seqs)}
    return res


def run_task(task):
    if task.get("kind") == "ff":
        return run_ff_task(task)
    return seqcheck.run_seq_task(sys.modules[__name__], task)


def replay(doc):
    if doc.get("engine") == "c07ff":
        env.lib()
        return run_ff(doc["clsname"], doc["shape"], tuple(doc["history"]))
    return seqcheck.replay_seq(doc)
