"""C07 A buffered flush never silently overwrites a file changed by someone else."""
import sys

from .. import env, model, seq, seqcheck

PROPERTY = "C07"
LEVEL = "model_checking"
RULE = ("n files, one object each, inside {backend-wide, per-object, per-object nested in backend-wide (also with an "
        "explicit capacity)} contexts; BFS over every interleaving of, per file: optional outside change before the first "
        "buffered access, first access (read or content-changing write), optional later write, optional outside change "
        "after it; then the contexts are left in every order, optionally preceded by set_buffer_capacity(0) which forces "
        "every modified file out under any eviction policy; oracle: an exception occurs iff some file is modified-in-buffer "
        "and changed outside after entering the buffer, MetadataError/BufferedError names EXACTLY those files, outside "
        "content survives, read-only files are not rewritten, clean modified files are written; afterwards size 0, no active "
        "context, capacity restored, every object shows the disk content unbuffered AND in a subsequent buffered context; "
        "non-trivial = distinct reached states")
BOUNDS = {"quick": "n=2 files, 4 context shapes, Buffered/MemoryBuffered x dict + list(cls only)",
          "thorough": "n=2 all 8 classes all shapes; n=3 for Buffered/MemoryBuffered dict"}
ASSUMPTIONS = ["outside rewrites always change (size, mtime_ns): the library's detection mechanism; the harness forces strictly increasing mtimes",
               "writes always change content (a write that restores the original bytes makes 'would write' implementation-defined)",
               "after the policy-independent forced flush only context exits follow"]

INIT = {"dict": {"k": 0}, "list": [0, {"x": 0}]}
SHAPES = {
    "cls": (("enter_cls", None),),
    "cls-cap": (("enter_cls", 10 ** 6),),
    "obj": "OBJ",
    "obj-in-cls": "OBJ-IN-CLS",
}


def shape_prefix(shape, n):
    if shape == "obj":
        return tuple(("enter", o) for o in range(n))
    if shape == "obj-in-cls":
        return (("enter_cls", None),) + tuple(("enter", o) for o in range(n))
    return SHAPES[shape]


def _ext_count(ref, r):
    d = ref.disk[r]
    if isinstance(d, dict):
        return d.get("ext", 0)
    return int(str(d[0])[3:]) if isinstance(d[0], str) and d[0].startswith("ext") else 0


def alphabet(ref, task):
    n = len(ref.disk)
    kind_ = ref.rootkind
    ev = []
    leaving = ref.n_exits > 0 or ref.n_setcap > 0
    if not leaving:
        for r in range(n):
            o = r
            cnt = _ext_count(ref, r)
            extev = ("ext", r, ("ext",) if kind_ == "dict" else (0,), cnt + 1 if kind_ == "dict" else "ext%d" % (cnt + 1))
            wr = ("op", o, "setitem", ("w", 1)) if kind_ == "dict" else ("op", o, "append", ("w",))
            wr2 = ("op", o, "setitem", ("w2", 2)) if kind_ == "dict" else ("op", o, "append", ("w2",))
            rd = ("op", o, "call", ())
            if not ref.in_buf[r]:
                if cnt == 0:
                    ev.append(extev)
                ev += [rd, wr]
            else:
                if not ref.ext_after[r]:
                    ev.append(extev)
                if not ref.changed_w[r]:
                    ev.append(wr)
                elif task["extra"].get("second_write") and not isinstance(ref.buf[r], list) and "w2" not in ref.buf[r]:
                    ev.append(wr2)
        if any(ref.in_buf):
            ev.append(("setcap", 0))
    # leaving (or start leaving): LIFO over kinds is not required by the library; every order of object exits
    entered = [o for o in range(len(ref.obj_res)) if ref.obj_depth[o] > 0]
    if entered:
        if leaving or any(ref.in_buf) or True:
            ev += [("exit", o) for o in entered]
    elif ref.cls_depth:
        ev.append(("exit_cls",))
    return ev


class Hooks:
    def before_event(self, run, ev, last):
        if not last:
            return
        run.scratch["snaps"] = None
        if ev[0] in ("exit", "exit_cls", "setcap"):
            ref = run.ref
            run.scratch["snaps"] = {r: run.world.resources[r].snapshot() for r in range(len(ref.disk))
                                    if ref.in_buf[r] and not ref.changed_w[r]}

    def after_event(self, run, ev, outcome, exp, info, last):
        out = []
        if last and run.scratch.get("snaps"):
            for r, s0 in run.scratch["snaps"].items():
                now = run.world.resources[r].snapshot()
                if now != s0:
                    out.append(("readonly-rewritten", "%r rewrote file %d whose buffered copy was only read: %r -> %r"
                                % (ev, r, seq._short(s0), seq._short(now))))
        return out

    def probe(self, run):
        out = []
        ref, world = run.ref, run.world
        k = world.klass
        try:
            # leave whatever is still entered, following the reference's expectations
            guard = 0
            while (any(ref.obj_depth) or ref.cls_depth) and guard < 10:
                guard += 1
                entered = [o for o in range(len(ref.obj_res)) if ref.obj_depth[o] > 0]
                ev = ("exit", entered[-1]) if entered else ("exit_cls",)
                oc = world.apply(ev)
                exp, info = ref.apply(ev)
                if exp.mode == "exc":
                    why = seq._exc_name_matches(exp, oc) or seq._check_conflict_names(world, oc[1], info["conflicts"])
                    if why:
                        out.append(("ctxerr", "closing %r: %s" % (ev, why)))
                elif oc[0] == "exc":
                    out.append(("ctxerr", "closing %r raised %s: %s" % (ev, type(oc[1]).__name__, oc[1])))
            for r in range(len(world.resources)):
                why = seq.compare_disk(ref, world, r)
                if why:
                    out.append(("final-file", "after leaving every context: " + why))
            if k.get_current_buffer_size() != 0:
                out.append(("not-pristine", "buffer size %r after every context exited" % k.get_current_buffer_size()))
            if k.backend_is_buffered():
                out.append(("not-pristine", "backend_is_buffered() after every context exited"))
            if ref.n_setcap == 0 and k.get_buffer_capacity() != env.default_capacity(run.cfg.clsname):
                out.append(("capacity-not-restored", "capacity is %r after the contexts exited, was %r before"
                            % (k.get_buffer_capacity(), env.default_capacity(run.cfg.clsname))))
            for o in range(len(world.objects)):
                got = model.to_plain(world.objects[o]())
                want = ref.logical_or_empty(ref.obj_res[o])
                if not model.exact_eq(got, want):
                    out.append(("final-view", "object %d shows %r after the contexts exited, disk/reference %r" % (o, got, want)))
            # a SUBSEQUENT buffered context must serve the disk content, not a stale entry
            if ref.n_setcap:
                k.set_buffer_capacity(env.default_capacity(run.cfg.clsname))
            with k.buffer_backend():
                for o in range(len(world.objects)):
                    got = model.to_plain(world.objects[o]())
                    want = ref.logical_or_empty(ref.obj_res[o])
                    if not model.exact_eq(got, want):
                        out.append(("stale-entry", "in a later buffered context object %d shows %r, disk holds %r" % (o, got, want)))
            if k.get_current_buffer_size() != 0:
                out.append(("not-pristine", "buffer size %r after a later read-only context" % k.get_current_buffer_size()))
        except Exception as e:  # noqa: BLE001
            out.append(("probe-error", "%s: %s" % (type(e).__name__, e)))
        return out


def make_hooks(name, task):
    return Hooks()


def plan(tier, seed):
    tasks = []
    if tier == "quick":
        combos = [(c, sh, 2) for c in ("BufferedJSONDict", "MemoryBufferedJSONDict") for sh in ("cls-cap", "obj", "obj-in-cls")] + \
                 [(c, "cls", 2) for c in ("BufferedJSONList", "MemoryBufferedJSONList")]
    else:
        combos = [(c, sh, 2) for fam in env.BUFFERED_FAMILIES for c in env.JSON_FAMILIES[fam] for sh in SHAPES] + \
                 [(c, sh, 3) for c in ("BufferedJSONDict", "MemoryBufferedJSONDict") for sh in ("cls", "obj")]
    for c, shape, n in combos:
        kind_ = env.kind_of(c)
        cfg = seq.Config(c, initial=(INIT[kind_],) * n, objects=tuple(range(n)), prefix=shape_prefix(shape, n),
                         label="%s/%s/%dfiles" % (c, shape, n))
        depth = 4 * n + (n + 2 if shape != "cls" and shape != "cls-cap" else 2)
        kw = dict(label=cfg.label, cfg=cfg, alphabet="alphabet", depth=depth, oracles={"result", "resource", "ctxerr"},
                  hooks="probe", extra={"second_write": tier != "quick" or shape == "obj"})
        if n == 3:
            kw["max_transitions"] = 50000
        tasks += seqcheck.split(4 if n == 2 else 24, **kw)
    return tasks


def run_task(task):
    return seqcheck.run_seq_task(sys.modules[__name__], task)


def replay(doc):
    return seqcheck.replay_seq(doc)
