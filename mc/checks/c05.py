"""C05 Buffered mode is transparent and defers all writes to the outermost exit."""
import sys

from .. import alpha, env, model, seq, seqcheck

PROPERTY = "C05"
LEVEL = "model_checking"
RULE = ("BFS over histories mixing mutators (incl. clear, reset, update, nested-child mutators), reads and all "
        "well-nested (LIFO) enter/exit words of obj.buffered and Class.buffer_backend() for the 8 buffered classes, one "
        "object per file, 1-2 files; every return must equal the unbuffered reference, while a file is buffered (default "
        "capacity) its (inode, mtime, size, bytes) must not change, at the outermost exit it must hold the reference "
        "content, and no context event may raise; non-trivial = distinct reached states")
BOUNDS = {"quick": "8 classes, 1 file: depth 5, context nesting <= 3; Buffered/MemoryBuffered dict+list, 2 files: depth 4 (3-op alphabet)",
          "thorough": "1 file: depth 7; 2 files: depth 6; all 8 classes"}
ASSUMPTIONS = ["default capacity (nothing may force a flush)", "no outside writer in this check (C07 covers conflicts)"]

INIT = {"dict": {"k": 0, "c": {"x": 0}}, "list": [0, {"x": 0}]}
PREFIX = {"dict": lambda o, n: (("nav", o, "c"),), "list": lambda o, n: (("nav", o, 1),)}


def ops_for(ref, h, rich):
    k = ref.handle_kind(h)
    child = bool(ref.handles[h]["path"])
    if k == "dict":
        if child:
            # two DISTINGUISHABLE writes through the child even in the reduced alphabet: losing the second one of
            # `write; leave a context; write` is only visible if it differs from the first
            return [("op", h, "setitem", ("x", 5)), ("op", h, "clear", ()), ("op", h, "reset", ({"q": 1},))] if rich else \
                [("op", h, "setitem", ("x", 5)), ("op", h, "setitem", ("y", 6))]
        ev = [("op", h, "setitem", ("a", 1)), ("op", h, "clear", ()), ("op", h, "call", ())]
        if rich:
            ev.append(("op", h, "setpath", (("c",), "x", 5)))
            ev += [("op", h, "setitem", ("n", {"x": [1]})), ("op", h, "delitem", ("k",)), ("op", h, "update", ({"u": 1}, {})),
                   ("op", h, "reset", ({"r": 1},)), ("op", h, "getitem", ("k",)), ("op", h, "len", ()), ("op", h, "pop", ("k",)),
                   ("op", h, "setdefault", ("sd", [1]))]
        return ev
    if child:
        return [("op", h, "append", (5,)), ("op", h, "clear", ())] if rich else [("op", h, "append", (5,)), ("op", h, "append", (6,))]
    ev = [("op", h, "append", (1,)), ("op", h, "clear", ()), ("op", h, "call", ())]
    if rich:
        ev.append(("op", h, "setpath", ((1,), "x", 5)))
        ev += [("op", h, "insert", (0, {"x": [1]})), ("op", h, "delitem", (0,)), ("op", h, "extend", ([2, 3],)),
               ("op", h, "reset", ([9],)), ("op", h, "getitem", (0,)), ("op", h, "len", ()), ("op", h, "pop", ()),
               ("op", h, "reverse", ())]
    return ev


def ctx_events(ref, max_nest):
    ev = []
    if len(ref.ctx_stack) < max_nest:
        for o in range(len(ref.obj_res)):
            ev.append(("enter", o))
        ev.append(("enter_cls", None))
    if ref.ctx_stack:
        top = ref.ctx_stack[-1]
        ev.append(("exit", top[1]) if top[0] == "obj" else ("exit_cls",))
    return ev


def alphabet(ref, task):
    rich = task["extra"].get("rich", True)
    ev = ctx_events(ref, task["extra"].get("max_nest", 3))
    for h in ref.attached_handles():
        ev += ops_for(ref, h, rich)
    return ev


class Hooks:
    def probe(self, run):
        # at the end of a history: leave all contexts, then the files must hold the reference content
        out = []
        ref, world = run.ref, run.world
        try:
            while ref.ctx_stack:
                top = ref.ctx_stack[-1]
                ev = ("exit", top[1]) if top[0] == "obj" else ("exit_cls",)
                oc = world.apply(ev)
                exp, info = ref.apply(ev)
                if oc[0] == "exc":
                    out.append(("ctxerr", "closing %r raised %s: %s" % (ev, type(oc[1]).__name__, oc[1])))
            for r in range(len(world.resources)):
                why = seq.compare_disk(ref, world, r)
                if why:
                    out.append(("final-file", "after leaving every context: " + why))
            for o in range(len(world.objects)):
                got = model.to_plain(world.objects[o]())
                want = ref.logical_or_empty(ref.obj_res[o])
                if not model.exact_eq(got, want):
                    out.append(("final-view", "object %d shows %r after the contexts exited, reference %r" % (o, got, want)))
        except Exception as e:  # noqa: BLE001
            out.append(("probe-error", "%s: %s" % (type(e).__name__, e)))
        return out


def make_hooks(name, task):
    return Hooks()


def signature_tag(cfg, history):
    """Part of a violation's signature for the configurations with a retained child handle: did the history contain
    an IDLE buffered context - one that was entered and left (or is still open at the end of the history) without a
    single operation on the collection in between?  The open finding D18 is exactly that situation; a lost write
    through a retained child after contexts that were all in use is a different failure and must not hide behind it."""
    if "childhandle" not in cfg.label:
        return None
    stack, idle = [], False
    for ev in history:
        t = ev[0]
        if t in ("enter", "enter_cls"):
            stack.append([False])
        elif t in ("exit", "exit_cls"):
            if stack and not stack.pop()[0]:
                idle = True
        elif t in ("op", "nav"):
            for s_ in stack:
                s_[0] = True
    if any(not s_[0] for s_ in stack):
        idle = True
    return "idle-ctx" if idle else "busy-ctx"


def plan(tier, seed):
    tasks = []
    for fam in env.BUFFERED_FAMILIES:
        for c in env.JSON_FAMILIES[fam]:
            k = env.kind_of(c)
            d1 = (5 if fam in ("Buffered", "MemoryBuffered") else 4) if tier == "quick" else 7
            for childhandle in (False, True):
                # childhandle: a nested child is retained BEFORE the history; otherwise nested writes navigate afresh
                lab = c + ("/1file/childhandle" if childhandle else "/1file")
                cfg = seq.Config(c, initial=(INIT[k],), objects=(0,),
                                 prefix=PREFIX[k](0, 1) if childhandle else (("op", 0, "len", ()),), label=lab)
                dd = d1 if not childhandle else d1 - 1
                if childhandle and fam == "MemoryBuffered" and tier == "quick":
                    dd = 5  # enter_cls, enter, op, exit, op-through-the-retained-child: the shortest 'busy context' history
                kw = dict(label="%s/d%d" % (lab, dd), cfg=cfg, alphabet="alphabet", depth=dd,
                          oracles={"result", "resource", "nowrite", "ctxerr"}, hooks="probe",
                          extra={"rich": not childhandle, "max_nest": 3})
                if tier != "quick":
                    kw["max_transitions"] = 50000
                tasks += seqcheck.split((8 if tier == "quick" else 16) if not childhandle else (8 if dd >= 5 else 4), level=2, **kw)
            if fam in ("Buffered", "MemoryBuffered") or tier != "quick":
                d2 = 4 if tier == "quick" else 6
                cfg = seq.Config(c, initial=(INIT[k], INIT[k]), objects=(0, 1), label=c + "/2files")
                kw = dict(label="%s/2files/d%d" % (c, d2), cfg=cfg, alphabet="alphabet", depth=d2,
                          oracles={"result", "resource", "nowrite", "ctxerr"}, hooks="probe",
                          extra={"rich": False, "max_nest": 2 if tier == "quick" else 3})
                if tier != "quick":
                    kw["max_transitions"] = 50000
                tasks += seqcheck.split(4 if tier == "quick" else 12, **kw)
    return tasks


def run_task(task):
    return seqcheck.run_seq_task(sys.modules[__name__], task)


def replay(doc):
    return seqcheck.replay_seq(doc)
