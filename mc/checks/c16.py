"""C16 Values are copied in and out: no aliasing with user-held objects."""
import copy
import sys

from .. import env, model
from ..env import ABSENT
from ..runner import new_result
from . import c12

PROPERTY = "C16"
LEVEL = "exploration"
RULE = ("bounded-exhaustive programs: (in) every container-taking entry point of every class x every argument shape to "
        "depth 3: after the call EVERY container reachable from the user-held argument (and from the pairs list / iterable "
        "wrapper) is mutated; (out) every container-returning operation ((), values(), items(), getitem of slices, pop, popitem, "
        "list pop, a child captured before del / clear / reset), each on a tree that was in the resource from the start AND on "
        "one whose nested parts arrived later over scalars (reset, update/slice assignment, an outside writer, element by "
        "element): the three detached views must be built-ins all the way "
        "down and every reachable container of the result is mutated (removed synced children through their own API); (copy) "
        "x[k2]=x[k1], y[k]=x, y[k]=x[k1][k2], y.update/reset/setdefault/extend/insert given a (not yet read) collection of "
        "another resource as a value, l.append(l[0]), l.insert(0, l[1]), extend(l) followed by mutation of source and "
        "of copy; oracle: collection(), a fresh object and the resource are unchanged by those mutations; non-trivial = "
        "distinct (class, program, shape) cases")
BOUNDS = {"quick": "12 JSON classes + 6 fake-store classes, 9 argument shapes", "thorough": "same with 16 shapes"}
ASSUMPTIONS = ["server backends against fake stores (the MongoDB fake deep-copies documents both ways, as pymongo does)"]

SHAPES = [{}, [], {"a": 0}, [0], {"p": {"q": [1, {"r": 2}]}}, [[1, {"a": [2]}]], {"a": [], "b": {}}, [{}, []],
          {"x": [[[]]]}, (1, [2]), {"p": ({"k": [3]},)}, [([4], {"t": (5, [6])})]]
MORE = [[[[0]]], {"a": {"b": {"c": {}}}}, [0, [1, [2, [3]]]], {"k": [{"k": [{}]}]}, [{"a": 0}, {"a": 0}], {"": []}, [[], [], []]]


def mutate_all(v, seen=None):
    """Mutate every container reachable from v, in place."""
    seen = seen if seen is not None else set()
    if id(v) in seen:
        return
    seen.add(id(v))
    if isinstance(v, dict):
        for x in list(v.values()):
            mutate_all(x, seen)
        v["__mut__"] = 1
    elif isinstance(v, list):
        for x in list(v):
            mutate_all(x, seen)
        v.append("__mut__")
    elif isinstance(v, tuple):
        for x in v:
            mutate_all(x, seen)


def state(c, res, obj):
    return (model.canon_json(model.to_plain(obj())), model.canon_json(res.read()),
            model.canon_json(model.to_plain(res.make(c)())))


def case_in(c, epname, ep, shape):
    kind_ = env.kind_of(c)
    if epname == "constructor":
        res = env.resource_for(c, ABSENT)
        try:
            arg = copy.deepcopy(shape)
            data = {"n": arg} if kind_ == "dict" else [arg]
            o = res.make(c, data=data)
            before = model.canon_json(model.to_plain(o._to_base() if hasattr(o, "_to_base") else o()))
            mutate_all(data)
            after = model.canon_json(model.to_plain(o._to_base() if hasattr(o, "_to_base") else o()))
            if before != after:
                return ("aliased-in", "constructor data %r: mutating the argument changed the collection to %s" % (shape, after))
        finally:
            res.destroy()
        return None
    sk, apply_, extract = ep
    res = env.resource_for(c, sk)
    try:
        o = res.make(c)
        arg = copy.deepcopy(shape)
        apply_(o, arg)
        s0 = state(c, res, o)
        mutate_all(arg)
        s1 = state(c, res, o)
        if s0 != s1:
            return ("aliased-in", "%s(%r): mutating the user-held argument afterwards changed %s -> %s" % (epname, shape, s0, s1))
    finally:
        res.destroy()
    if env.is_buffered_class(c):
        # the same inside a buffered context (no reload from the file hides a shared reference)
        res = env.resource_for(c, sk)
        try:
            o = res.make(c)
            arg = copy.deepcopy(shape)
            with o.buffered:
                apply_(o, arg)
                v0 = model.canon_json(model.to_plain(o()))
                mutate_all(arg)
                v1 = model.canon_json(model.to_plain(o()))
            f1 = model.canon_json(model.to_plain(res.make(c)()))
            if v0 != v1 or f1 != v0:
                return ("aliased-in-buffered", "%s(%r) inside obj.buffered: mutating the argument changed the view %s -> %s (file after exit %s)"
                        % (epname, shape, v0, v1, f1))
        finally:
            res.destroy()
    return None


def out_programs(kind_):
    """name -> (initial, fn(obj) -> result or list of results, detached?)"""
    if kind_ == "dict":
        init = {"d": {"x": [1, {"y": 2}]}, "l": [[0], {"z": 1}], "v": 1}
        return init, {
            "call": (lambda o: o(), True),
            "nested-call": (lambda o: o["d"](), True),
            "values": (lambda o: list(o.values()), True),
            "items": (lambda o: [list(i) for i in o.items()], True),
            "nested-values": (lambda o: list(o["d"].values()), True),
            "nested-list-call": (lambda o: o["l"](), True),
            "nested-list-slice": (lambda o: o["l"][0:2], False),
            "pop": (lambda o: o.pop("d"), False),
            "popitem": (lambda o: o.popitem(), False),
            "del-captured": (lambda o: _cap(o, "d", lambda: o.__delitem__("d")), False),
            "clear-captured": (lambda o: _cap(o, "d", o.clear), False),
            "reset-captured": (lambda o: _cap(o, "d", lambda: o.reset({"q": 1})), False),
            "nested-list-pop": (lambda o: o["l"].pop(), False),
            "setdefault-existing": (lambda o: o.setdefault("d", 5), None),
            "get": (lambda o: o.get("d"), None),
        }
    init = [{"x": [1, {"y": 2}]}, [[0], {"z": 1}], 1]
    return init, {
        "call": (lambda o: o(), True),
        "nested-call": (lambda o: o[0](), True),
        "slice": (lambda o: o[0:2], False),
        "iter": (lambda o: list(o), False),
        "nested-values": (lambda o: list(o[0].values()), True),
        "nested-items": (lambda o: [list(i) for i in o[0].items()], True),
        "pop": (lambda o: o.pop(0), False),
        "pop-last-container": (lambda o: o.pop(1), False),
        "del-captured": (lambda o: _cap(o, 0, lambda: o.__delitem__(0)), False),
        "clear-captured": (lambda o: _cap(o, 1, o.clear), False),
        "reset-captured": (lambda o: _cap(o, 0, lambda: o.reset([7])), False),
        "reversed": (lambda o: list(reversed(o)), False),
    }


def _cap(o, key, action):
    child = o[key]
    action()
    return child


def mutate_result(r, seen=None):
    """Mutate a result: built-in containers in place, synced nodes through their own API."""
    seen = seen if seen is not None else set()
    if id(r) in seen:
        return
    seen.add(id(r))
    if env.is_synced(r):
        try:
            if hasattr(r, "keys"):
                r["__mut__"] = 1
            else:
                r.append("__mut__")
        except Exception:  # noqa: BLE001
            pass
        return
    if isinstance(r, dict):
        for x in list(r.values()):
            mutate_result(x, seen)
        r["__mut__"] = 1
    elif isinstance(r, list):
        for x in list(r):
            if not env.is_synced(x):
                mutate_result(x, seen)
        r.append("__mut__")
    elif isinstance(r, tuple):
        for x in r:
            mutate_result(x, seen)


ROUTES = ("file", "reset-over-flat", "update-over-flat", "outside-writer-over-flat", "elementwise-over-flat")


def _flat(init):
    """Same top-level shape, every nested container replaced by a scalar."""
    if isinstance(init, dict):
        return {k: (0 if isinstance(v, (dict, list)) else v) for k, v in init.items()}
    return [(0 if isinstance(v, (dict, list)) else v) for v in init]


def _arrive(c, init, route):
    """The collection holding `init`, reached by different histories: present in the resource from the start, or merged
    over a tree that so far held only scalars (reset / update / an outside writer / element by element)."""
    if route == "file":
        res = env.resource_for(c, init)
        return res, res.make(c)
    res = env.resource_for(c, _flat(init))
    o = res.make(c)
    o()  # the flat content is loaded: the in-memory tree has no nested node yet
    if route == "reset-over-flat":
        o.reset(copy.deepcopy(init))
    elif route == "update-over-flat":
        if isinstance(init, dict):
            o.update(copy.deepcopy(init))
        else:
            o[0:len(init)] = copy.deepcopy(init)
    elif route == "outside-writer-over-flat":
        res.ext_write(copy.deepcopy(init))
    elif route == "elementwise-over-flat":
        for k, v in (init.items() if isinstance(init, dict) else enumerate(init)):
            o[k] = copy.deepcopy(v)
    return res, o


def case_out(c, name, fn, detached, route="file"):
    init, _ = out_programs(env.kind_of(c))
    res, o = _arrive(c, init, route)
    try:
        r = fn(o)
        if detached and not model.is_plain(r):
            return ("not-detached", "%s returned %r which is not built-in data all the way down" % (name, r))
        s0 = state(c, res, o)
        if detached is None:
            return None  # live child by design (get/setdefault return the nested node)
        mutate_result(r)
        s1 = state(c, res, o)
        if s0 != s1:
            return ("aliased-out", "%s: mutating the result changed %s -> %s" % (name, s0, s1))
    finally:
        res.destroy()
    return None


def copy_programs(kind_):
    """name -> fn(x, y) performing the copy and returning (mutate_source, mutate_copy, read_source, read_copy)"""
    if kind_ == "dict":
        init = {"k1": {"a": [1, {"b": 2}]}, "v": 0}
        return init, {
            "x[k2]=x[k1]": lambda x, y: (x.__setitem__("k2", x["k1"]),
                                         lambda: x["k1"].__setitem__("new", 1), lambda: x["k2"].__setitem__("new2", 1),
                                         lambda: x["k1"](), lambda: x["k2"]())[1:],
            "x[k2]=x[k1][a]": lambda x, y: (x.__setitem__("k2", x["k1"]["a"]),
                                            lambda: x["k1"]["a"].append(9), lambda: x["k2"].append(8),
                                            lambda: x["k1"]["a"](), lambda: x["k2"]())[1:],
            "y[k]=x": lambda x, y: (y.__setitem__("k", x), lambda: x.__setitem__("new", 1), lambda: y["k"].__setitem__("new2", 1),
                                    lambda: x(), lambda: y["k"]())[1:],
            "y[k]=x[k1][a][1]": lambda x, y: (y.__setitem__("k", x["k1"]["a"][1]), lambda: x["k1"]["a"][1].__setitem__("new", 1),
                                              lambda: y["k"].__setitem__("new2", 1), lambda: x["k1"]["a"][1](), lambda: y["k"]())[1:],
            "y.update(x)": lambda x, y: (y.update(x), lambda: x["k1"].__setitem__("new", 1), lambda: y["k1"].__setitem__("new2", 1),
                                         lambda: x["k1"](), lambda: y["k1"]())[1:],
            "y.reset(x)": lambda x, y: (y.reset(x), lambda: x["k1"]["a"].append(9), lambda: y["k1"]["a"].append(8),
                                        lambda: x["k1"](), lambda: y["k1"]())[1:],
            "y.update({k:x})": lambda x, y: (y.update({"k": x}), lambda: x.__setitem__("new", 1), lambda: y["k"].__setitem__("new2", 1),
                                             lambda: x(), lambda: y["k"]())[1:],
            "y.update(k=x)": lambda x, y: (y.update(k=x), lambda: x.__setitem__("new", 1), lambda: y["k"].__setitem__("new2", 1),
                                           lambda: x(), lambda: y["k"]())[1:],
            "y.reset({k:x})": lambda x, y: (y.reset({"k": x}), lambda: x.__setitem__("new", 1), lambda: y["k"].__setitem__("new2", 1),
                                            lambda: x(), lambda: y["k"]())[1:],
            "y.update({k:[x]})": lambda x, y: (y.update({"k": [x]}), lambda: x.__setitem__("new", 1), lambda: y["k"][0].__setitem__("new2", 1),
                                               lambda: x(), lambda: y["k"][0]())[1:],
            "y.setdefault(k,x[k1])": lambda x, y: (y.setdefault("k", x["k1"]), lambda: x["k1"].__setitem__("new", 1),
                                                   lambda: y["k"].__setitem__("new2", 1), lambda: x["k1"](), lambda: y["k"]())[1:],
        }
    init = [{"a": [1, {"b": 2}]}, [5, [6]], 0]
    return init, {
        "l.append(l[0])": lambda x, y: (x.append(x[0]), lambda: x[0].__setitem__("new", 1), lambda: x[-1].__setitem__("new2", 1),
                                        lambda: x[0](), lambda: x[-1]())[1:],
        "l.insert(0,l[1])": lambda x, y: (x.insert(0, x[1]), lambda: x[2].append(9), lambda: x[0].append(8),
                                          lambda: x[2](), lambda: x[0]())[1:],
        "l[2]=l[1]": lambda x, y: (x.__setitem__(2, x[1]), lambda: x[1].append(9), lambda: x[2].append(8),
                                   lambda: x[1](), lambda: x[2]())[1:],
        "y.extend(x)": lambda x, y: (y.extend(x), lambda: x[0].__setitem__("new", 1), lambda: y[-3].__setitem__("new2", 1),
                                     lambda: x[0](), lambda: y[-3]())[1:],
        "y.reset([x])": lambda x, y: (y.reset([x]), lambda: x.append(9), lambda: y[0].append(8), lambda: x(), lambda: y[0]())[1:],
        "y.extend([x])": lambda x, y: (y.extend([x]), lambda: x.append(9), lambda: y[-1].append(8), lambda: x(), lambda: y[-1]())[1:],
        "y.insert(0,x)": lambda x, y: (y.insert(0, x), lambda: x.append(9), lambda: y[0].append(8), lambda: x(), lambda: y[0]())[1:],
        "y[0]=x": lambda x, y: (y.__setitem__(0, x), lambda: x.append(9), lambda: y[0].append(8), lambda: x(), lambda: y[0]())[1:],
        "y.append(x)": lambda x, y: (y.append(x), lambda: x.append(9), lambda: y[-1].append(8), lambda: x(), lambda: y[-1]())[1:],
        "y+=x": lambda x, y: (y.__iadd__(x), lambda: x[1].append(9), lambda: y[-2].append(8), lambda: x[1](), lambda: y[-2]())[1:],
        "y.reset(x)": lambda x, y: (y.reset(x), lambda: x[1].append(9), lambda: y[1].append(8), lambda: x[1](), lambda: y[1]())[1:],
        "y[0:1]=x": lambda x, y: (y.__setitem__(slice(0, 1), x), lambda: x[0].__setitem__("new", 1), lambda: y[0].__setitem__("new2", 1),
                                  lambda: x[0](), lambda: y[0]())[1:],
    }


def self_argument_programs(kind_):
    """The collection's OWN nested children used as argument values: the result must be what built-in
    data gives (arguments are snapshots), e.g. a swap must swap."""
    if kind_ == "dict":
        init = {"p": {"v": 1}, "q": {"v": [2]}, "n": 0}
        return init, {
            "x.update(swap own children)": (lambda x: x.update({"p": x["q"], "q": x["p"]}),
                                            {"p": {"v": [2]}, "q": {"v": 1}, "n": 0}),
            "x.reset(swap own children)": (lambda x: x.reset({"p": x["q"], "q": x["p"]}),
                                           {"p": {"v": [2]}, "q": {"v": 1}}),
            "x.reset(child under new key too)": (lambda x: x.reset({"p": x["p"], "r": x["p"], "q": x["q"]}),
                                                 {"p": {"v": 1}, "r": {"v": 1}, "q": {"v": [2]}}),
            "x.update(kwargs swap)": (lambda x: x.update(p=x["q"], q=x["p"]), {"p": {"v": [2]}, "q": {"v": 1}, "n": 0}),
        }
    init = [{"a": 2}, {"a": 1}, [3]]
    return init, {
        "l.reset(sorted own children)": (lambda x: x.reset(sorted(list(x)[:2], key=lambda n: n["a"]) + [x[2]]),
                                         [{"a": 1}, {"a": 2}, [3]]),
        "l.reset(reversed own children)": (lambda x: x.reset([x[2], x[1], x[0]]), [[3], {"a": 1}, {"a": 2}]),
        "l[0:2]=reversed own children": (lambda x: x.__setitem__(slice(0, 2), [x[1], x[0]]), [{"a": 1}, {"a": 2}, [3]]),
        "l.reset(own child twice)": (lambda x: x.reset([x[0], x[0]]), [{"a": 2}, {"a": 2}]),
    }


def case_self_argument(c, name, fn, want):
    init, _ = self_argument_programs(env.kind_of(c))
    res = env.resource_for(c, init)
    try:
        x = res.make(c)
        fn(x)
        got = model.to_plain(x())
        disk = model.to_plain(res.make(c)())
        if not model.exact_eq(got, want) or not model.exact_eq(disk, want):
            return ("self-argument", "%s: result %r (fresh object: %r), built-in data gives %r" % (name, got, disk, want))
    finally:
        res.destroy()
    return None


def case_copy(c, name, fn):
    init, _ = copy_programs(env.kind_of(c))
    rx = env.resource_for(c, init)
    ry = env.resource_for(c, init)
    try:
        x, y = rx.make(c), ry.make(c)
        mut_src, mut_cpy, read_src, read_cpy = fn(x, y)
        src0, cpy0 = model.canon_json(model.to_plain(read_src())), model.canon_json(model.to_plain(read_cpy()))
        if src0 != cpy0:
            return ("copy-differs", "%s: copy %s differs from source %s" % (name, cpy0, src0))
        mut_src()
        cpy1 = model.canon_json(model.to_plain(read_cpy()))
        if cpy1 != cpy0:
            return ("aliased-copy", "%s: mutating the source changed the copy %s -> %s" % (name, cpy0, cpy1))
        src1 = model.canon_json(model.to_plain(read_src()))
        mut_cpy()
        src2 = model.canon_json(model.to_plain(read_src()))
        if src2 != src1:
            return ("aliased-copy", "%s: mutating the copy changed the source %s -> %s" % (name, src1, src2))
        # and on the resources
        fx, fy = model.to_plain(rx.make(c)()), model.to_plain(ry.make(c)())
        if model.canon_json(fx) != model.canon_json(model.to_plain(x())) or model.canon_json(fy) != model.canon_json(model.to_plain(y())):
            return ("resource-differs", "%s: resources differ from the objects' views afterwards" % name)
    finally:
        rx.destroy()
        ry.destroy()
    return None


def plan(tier, seed):
    return [{"kind": "c16", "label": c, "clsname": c, "tier": tier} for c in env.all_classes()]


def run_task(task):
    env.lib()
    c = task["clsname"]
    kind_ = env.kind_of(c)
    attr = env.family_of(c) in env.ATTR_FAMILIES
    res = new_result()
    shapes = SHAPES + (MORE if task["tier"] != "quick" else [])
    eps = c12.entry_points(kind_, attr)
    eps["constructor"] = None

    only_tag = task.get("only_tag")

    def record(bad, tag):
        res["evaluations"] += 1
        if only_tag is not None and tag != only_tag:
            return
        if bad is not None and (len(res["violations"]) < 40 or only_tag is not None):
            k, d = bad
            res["violations"].append({"signature": "%s|%s|%s|%s" % (PROPERTY, c, tag, k), "detail": d,
                                      "replay": {"engine": "c16", "module": __name__, "clsname": c, "tag": tag}})

    for nm, ep in eps.items():
        for i, sh in enumerate(shapes):
            try:
                record(case_in(c, nm, ep, sh), "in:%s:shape%d" % (nm, i))
            except Exception as e:  # noqa: BLE001
                record(("error", "in:%s %r raised %s: %s" % (nm, sh, type(e).__name__, e)), "in:%s:shape%d" % (nm, i))
    _, outs = out_programs(kind_)
    for nm, (fn, detached) in outs.items():
        for route in ROUTES:
            tag = "out:" + nm + ("" if route == "file" else "@" + route)
            try:
                record(case_out(c, nm, fn, detached, route), tag)
            except Exception as e:  # noqa: BLE001
                record(("error", "%s raised %s: %s" % (tag, type(e).__name__, e)), tag)
    _, cps = copy_programs(kind_)
    for nm, fn in cps.items():
        try:
            record(case_copy(c, nm, fn), "copy:" + nm)
        except Exception as e:  # noqa: BLE001
            record(("error", "copy:%s raised %s: %s" % (nm, type(e).__name__, e)), "copy:" + nm)
    _, sps = self_argument_programs(kind_)
    for nm, (fn, want) in sps.items():
        try:
            record(case_self_argument(c, nm, fn, want), "self:" + nm)
        except Exception as e:  # noqa: BLE001
            record(("error", "self:%s raised %s: %s" % (nm, type(e).__name__, e)), "self:" + nm)
    res["nontrivial"] = res["evaluations"]
    res["states"] = res["evaluations"]
    res["samples"] = [{"class": c, "entry_points": list(eps), "out_programs": list(outs), "copy_programs": list(cps),
                       "shapes": [repr(s) for s in shapes[:4]]}]
    return res


def replay(doc):
    env.lib()
    r = run_task({"clsname": doc["clsname"], "tier": "thorough", "only_tag": doc["tag"]})
    return [(v["signature"].split("|")[-1], v["detail"]) for v in r["violations"] if v["replay"]["tag"] == doc["tag"]]
