"""C08 A crash during a save leaves each JSON file wholly old or wholly new."""
import os
import sys
import time

from .. import env, fault, seq
from ..runner import new_result

PROPERTY = "C08"
LEVEL = "fault_enumeration"
RULE = ("for each history (one mutator on an existing file, or a multi-file buffer flush) and each atomic write mode, a "
        "crash-free traced run lists every crash point: before every executed line of library code in the operation "
        "window, every prefix length of the bytes handed to every write(), and after every full unflushed write; for "
        "EVERY point the history is re-run in a forked child that dies there (os._exit), then every file must be "
        "byte-identical to one of its complete versions and open in a fresh collection; plus unserialisable content in all "
        "write modes; non-trivial = crash points that land inside the save (a temp file exists or a file already changed)")
BOUNDS = {"quick": "JSONDict/JSONList x 3 modes x 4 mutators, buffered flush scenarios for both strategies (dict), basenames of 216 and 255 bytes",
          "thorough": "all 12 JSON classes x 3 modes x 8 mutators, all flush scenarios x 4 buffered classes"}
ASSUMPTIONS = ["process death, not power loss (no fsync reasoning)", "POSIX rename atomicity of the real file system (tmpfs / ext4)"]

INIT = {"dict": {"a": {"b": [0, {"c": 0}]}, "k": 0}, "list": [0, [1, {"a": 0}], {"b": [0]}]}

MUT = {
    "dict": {
        "setitem": ((), ("op", 0, "setitem", ("n", {"x": [1, 2]}))),
        "nested-setitem": ((("nav", 0, "a"),), ("op", 1, "setitem", ("z", "long-value-" * 3))),
        "update": ((), ("op", 0, "update", ({"u": 1, "v": [2]}, {}))),
        "delitem": ((), ("op", 0, "delitem", ("k",))),
        "clear": ((), ("op", 0, "clear", ())),
        "reset": ((), ("op", 0, "reset", ({"r": [1, 2, 3]},))),
        "pop": ((), ("op", 0, "pop", ("k",))),
        "nested-clear": ((("nav", 0, "a"),), ("op", 1, "clear", ())),
    },
    "list": {
        "append": ((), ("op", 0, "append", ({"x": [1, 2]},))),
        "nested-setitem": ((("nav", 0, 2),), ("op", 1, "setitem", ("z", "long-value-" * 3))),
        "pop": ((), ("op", 0, "pop", ())),
        "delitem": ((), ("op", 0, "delitem", (0,))),
        "clear": ((), ("op", 0, "clear", ())),
        "reset": ((), ("op", 0, "reset", ([9, [8]],))),
        "extend": ((), ("op", 0, "extend", ([1, 2],))),
        "reverse": ((), ("op", 0, "reverse", ())),
    },
}
QUICK_MUT = {"dict": ("setitem", "nested-setitem", "clear", "reset"), "list": ("append", "pop", "clear", "reset")}


def w(h, k):
    return lambda kind_: ("op", h, "setitem", ("w", k)) if kind_ == "dict" else ("op", h, "append", (k,))


def flush_scenarios(clsname):
    kind_ = env.kind_of(clsname)
    init = INIT[kind_]
    wr = lambda h, k: ("op", h, "setitem", ("w", k)) if kind_ == "dict" else ("op", h, "append", (k,))
    rd = lambda h: ("op", h, "len", ())
    mem = env.is_memory_buffered(clsname)
    tiny = 0 if mem else 1
    out = {}
    out["obj-exit-1file"] = dict(n=1, objects=(0,), pre=(("enter", 0), wr(0, 1)), window=(("exit", 0),))
    out["cls-exit-2files"] = dict(n=2, objects=(0, 1), pre=(("enter_cls", None), wr(0, 1), wr(1, 2)), window=(("exit_cls",),))
    out["cls-exit-3files-1readonly"] = dict(n=3, objects=(0, 1, 2), pre=(("enter_cls", None), wr(0, 1), rd(1), wr(2, 2)), window=(("exit_cls",),))
    out["nested-exit"] = dict(n=2, objects=(0, 1), pre=(("enter_cls", None), ("enter", 0), wr(0, 1), wr(1, 2), ("exit", 0)), window=(("exit_cls",),))
    out["forced-flush-by-write"] = dict(n=2, objects=(0, 1), pre=(("enter_cls", 1 if mem else 60), wr(0, 1)), window=(wr(1, 2),))
    out["forced-flush-by-setcap"] = dict(n=2, objects=(0, 1), pre=(("enter_cls", None), wr(0, 1), wr(1, 2)), window=(("setcap", tiny),))
    out["write-in-window-then-exit"] = dict(n=1, objects=(0,), pre=(("enter", 0),), window=(wr(0, 1), wr(0, 2), ("exit", 0)))
    for k, v in out.items():
        v["init"] = init
    return out


def scenarios(tier):
    out = []
    for c in env.all_json_classes():
        kind_ = env.kind_of(c)
        main = c in ("JSONDict", "JSONList")
        if tier == "quick" and not main:
            continue
        names = QUICK_MUT[kind_] if tier == "quick" else tuple(MUT[kind_])
        if tier != "quick" and not main:
            names = QUICK_MUT[kind_]
        for nm in names:
            prefix, ev = MUT[kind_][nm]
            for mode in ("wc", "thr", "both") + (("thr-late",) if nm in ("setitem", "append") else ()):
                cfg = seq.Config(c, initial=(INIT[kind_],), prefix=prefix, label=c)
                out.append({"label": "%s/%s/%s" % (c, nm, mode), "cfg": cfg, "mode": mode, "pre": (), "window": (ev,),
                            "family": "mutator"})
    # first save of a file that does not exist yet: absent or complete, never empty/truncated
    for c in (("JSONDict", "JSONList") if tier == "quick" else env.all_json_classes()):
        kind_ = env.kind_of(c)
        ev = ("op", 0, "setitem", ("n", {"x": [1, 2]})) if kind_ == "dict" else ("op", 0, "append", ({"x": [1, 2]},))
        for mode in ("wc", "thr", "both"):
            cfg = seq.Config(c, initial=(env.ABSENT,), label=c)
            out.append({"label": "%s/create/%s" % (c, mode), "cfg": cfg, "mode": mode, "pre": (), "window": (ev,),
                        "family": "mutator"})
    # file names at the limits of the file system: the longest basename for which the temp-file scheme still fits,
    # and NAME_MAX itself (where a save may legitimately fail - but must not damage the file)
    for c in (("JSONDict",) if tier == "quick" else ("JSONDict", "JSONList", "BufferedJSONDict", "MemoryBufferedJSONDict")):
        kind_ = env.kind_of(c)
        ev = ("op", 0, "setitem", ("n", {"x": [1, 2]})) if kind_ == "dict" else ("op", 0, "append", ({"x": [1, 2]},))
        for n in ((216, 255) if tier == "quick" else (200, 216, 217, 240, 254, 255)):
            for mode in (("thr",) if tier == "quick" else ("thr", "wc")):
                cfg = seq.Config(c, initial=(INIT[kind_],), label=c)
                out.append({"label": "%s/name%d/%s" % (c, n, mode), "cfg": cfg, "mode": mode, "pre": (), "window": (ev,),
                            "family": "mutator", "namelen": n})
    for c in (("BufferedJSONDict", "MemoryBufferedJSONList") if tier == "quick" else
              ("BufferedJSONDict", "MemoryBufferedJSONDict", "BufferedJSONList", "MemoryBufferedJSONList")):
        kind_ = env.kind_of(c)
        wr = (lambda h, k: ("op", h, "setitem", ("w", k))) if kind_ == "dict" else (lambda h, k: ("op", h, "append", (k,)))
        for mode in (("thr",) if tier == "quick" else ("wc", "thr", "both")):
            cfg = seq.Config(c, initial=(env.ABSENT, env.ABSENT), objects=(0, 1), label=c)
            out.append({"label": "%s/create-by-flush/%s" % (c, mode), "cfg": cfg, "mode": mode,
                        "pre": (("enter_cls", None), wr(0, 1), wr(1, 2)), "window": (("exit_cls",),), "family": "flush"})
    bufclasses = ("BufferedJSONDict", "MemoryBufferedJSONDict") if tier == "quick" else \
        ("BufferedJSONDict", "MemoryBufferedJSONDict", "BufferedJSONList", "MemoryBufferedJSONList",
         "BufferedJSONAttrDict", "MemoryBufferedJSONAttrList")
    for c in bufclasses:
        for nm, sc in flush_scenarios(c).items():
            for mode in (("thr",) if tier == "quick" else ("wc", "thr", "both")):
                cfg = seq.Config(c, initial=(sc["init"],) * sc["n"], objects=sc["objects"], label=c)
                out.append({"label": "%s/%s/%s" % (c, nm, mode), "cfg": cfg, "mode": mode, "pre": sc["pre"],
                            "window": sc["window"], "family": "flush"})
    # unserialisable content never damages the file, in ANY write mode
    for c in (("JSONDict", "JSONList", "BufferedJSONDict", "MemoryBufferedJSONList") if tier == "quick" else env.all_json_classes()):
        kind_ = env.kind_of(c)
        ev = ("op", 0, "setitem", ("n", 1)) if kind_ == "dict" else ("op", 0, "append", (1,))
        for mode in ("wc", "thr", "both", "inplace"):
            for how in ("fail_dumps",):  # planting a leaf in memory is undone by the mutator's own load
                cfg = seq.Config(c, initial=(INIT[kind_],), label=c)
                out.append({"label": "%s/unserialisable-%s/%s" % (c, how, mode), "cfg": cfg, "mode": mode, "pre": (),
                            "window": (ev,), how: True, "family": "unserialisable"})
    return out


def plan(tier, seed):
    return [{"kind": "fault", "label": s["label"], "scn": s} for s in scenarios(tier)]


def run_task(task):
    scn = task["scn"]
    env.lib()
    res = new_result()
    cfg = scn["cfg"]
    paths = [env.fresh_name("c%d_" % i) for i in range(len(cfg.initial))]
    if scn.get("namelen"):
        d, b = os.path.split(paths[0])
        paths[0] = os.path.join(d, b[:-5] + "x" * (scn["namelen"] - len(b)) + ".json")
        assert len(os.path.basename(paths[0])) == scn["namelen"]
    try:
        fault.reset_files(paths, cfg.initial)
        m = fault.measure(scn, paths)
        if scn["family"] == "unserialisable":
            # the operation must fail and every file must be byte-identical afterwards
            res["evaluations"] = 1
            res["nontrivial"] = 1
            old = [vs[0] for vs in m["versions"]]
            new = [vs[-1] for vs in m["versions"]]
            failed = any(o is not None and o[0] == "exc" for o in m["outcomes"])
            if not failed:
                # the injection did not reach the way this tree serialises: no verdict (a save that succeeds may of
                # course change the file)
                res["notes"].append("%s: the injected serialisation failure did not make the operation fail" % scn["label"])
            if failed and old != new:
                res["violations"].append(_viol(scn, ("crash-free",), "damaged-by-unserialisable",
                                               "file went from %r to %r although serialisation failed" % (old[0][:60], None if new[0] is None else new[0][:60])))
            strays = [x for p in paths for x in os.listdir(os.path.dirname(p)) if x.startswith("._") and x.endswith("_" + os.path.basename(p))]
            res["samples"] = [{"scenario": scn["label"], "outcomes": m["outcomes"], "file_unchanged": old == new}]
            return res
        pts = fault.enumerate_points(m)
        versions = [list(dict.fromkeys(vs)) for vs in m["versions"]]
        nontrivial = 0
        seen_states = set()
        for pt in pts:
            fault.reset_files(paths, cfg.initial)
            code, payload = fault.crash_at(scn, paths, pt)
            res["evaluations"] += 1
            if code != fault.CRASH_CODE:
                res["errors"].append("%s: crash point %r was not reached (exit %r, %r)" % (scn["label"], pt, code, payload))
                break
            blobs = []
            for p in paths:
                try:
                    blobs.append(open(p, "rb").read())
                except FileNotFoundError:
                    blobs.append(None)
            d = os.path.dirname(paths[0])
            strays = sum(1 for x in os.listdir(d) for p in paths if x.startswith("._") and x.endswith("_" + os.path.basename(p)))
            if strays or any(b != vs[0] for b, vs in zip(blobs, versions)):
                nontrivial += 1
            seen_states.add((tuple(blobs), strays))
            bad = fault.check_after_crash(scn, paths, versions)
            for kind_, detail in bad:
                res["violations"].append(_viol(scn, pt, kind_, detail))
            if len(res["violations"]) > 20:
                break
        res["nontrivial"] = nontrivial
        res["states"] = len(seen_states)
        res["samples"] = [{"scenario": scn["label"], "line_points": m["lines"], "writes": m["writes"],
                           "crash_points": len(pts), "distinct_post_crash_states": len(seen_states),
                           "env_calls": m["calls"][:12]}]
        res["extra"] = {"line_points": m["lines"], "write_points": len(pts) - m["lines"]}
    finally:
        for p in paths:
            fault.reset_files([p], [env.ABSENT])
    return res


def _viol(scn, pt, kind_, detail):
    from ..seqcheck import cfg_to_doc
    ptk = pt[0]
    sig = "%s|%s|%s|%s|%s|%s" % (PROPERTY, scn["cfg"].clsname, scn["label"].split("/")[1], scn["mode"], ptk, kind_)
    return {"signature": sig, "detail": "%s at crash point %r: %s" % (scn["label"], pt, detail),
            "replay": {"engine": "fault", "module": __name__, "point": list(pt),
                       "scn": {"label": scn["label"], "cfg": cfg_to_doc(scn["cfg"]), "mode": scn["mode"],
                               "pre": repr(scn["pre"]), "window": repr(scn["window"]), "family": scn["family"],
                               "fail_dumps": scn.get("fail_dumps", False),
                               "plant_unserializable": scn.get("plant_unserializable", False), "namelen": scn.get("namelen")}}}


def replay(doc):
    from ..seqcheck import _lit, cfg_from_doc
    env.lib()
    s = doc["scn"]
    scn = {"label": s["label"], "cfg": cfg_from_doc(s["cfg"]), "mode": s["mode"], "pre": _lit(s["pre"]),
           "window": _lit(s["window"]), "family": s["family"], "fail_dumps": s.get("fail_dumps"),
           "plant_unserializable": s.get("plant_unserializable"), "namelen": s.get("namelen")}
    r = run_task({"scn": scn, "label": scn["label"]})
    return [(v["signature"].split("|")[-1], v["detail"]) for v in r["violations"]]
