"""C14 Readers next to writers: no lost update, no impossible state, no error."""
import itertools

from .. import env, schedcheck, seq
from . import c09

PROPERTY = "C14"
LEVEL = "model_checking"
NEEDS_SCHED = True
RULE = ("all thread schedules up to a preemption bound of programs with 1 reader thread (getitem, get, len, iter, (), "
        "==, navigation to a nested child followed by a read) and 1 writer thread (1-2 mutators) on one object or on two "
        "objects bound to one file, unbuffered and inside a backend-wide buffered context of each strategy; oracle = the "
        "reader's value, the writer's results and the final file equal those of some serial position; non-trivial = "
        "distinct observations")
BOUNDS = {"quick": "6 reads x 4 writes x topologies {same object, two objects, two objects on a missing file, two objects that have not loaded yet; in-context also after an earlier complete session} x {JSON, Buffered-in-context, MemoryBuffered-in-context} x {dict, list}, bound 1; getitem||setitem on two fresh JSONDict objects at bound 2",
          "thorough": "adds 2-op writers, 2 readers || 1 writer, Attr families, bound 2 on a core"}
ASSUMPTIONS = c09.ASSUMPTIONS + ["results that are live synced containers are observed by kind only"]

INIT = {"dict": {"k": 0, "c": {"k": 0, "x": 0}}, "list": [0, {"k": 0, "x": 0}]}

DICT_READS = {
    "getitem": [("op", "H", "getitem", ("k",))],
    "get": [("op", "H", "get", ("a",))],
    "len": [("op", "H", "len", ())],
    "iter": [("op", "H", "iter", ())],
    "call": [("op", "H", "call", ())],
    "eq": [("op", "H", "eq", ({"k": 0, "c": {"k": 0, "x": 0}},))],
    "nav-read": [("op", "H", "getitem", ("c",)), ("op", "C", "getitem", ("x",))],
    "contains": [("op", "H", "contains", ("a",))],
}
LIST_READS = {
    "getitem": [("op", "H", "getitem", (0,))],
    "len": [("op", "H", "len", ())],
    "iter": [("op", "H", "iter", ())],
    "call": [("op", "H", "call", ())],
    "eq": [("op", "H", "eq", ([0, {"k": 0, "x": 0}],))],
    "nav-read": [("op", "H", "getitem", (1,)), ("op", "C", "getitem", ("x",))],
    "contains": [("op", "H", "contains", (7,))],
    "count": [("op", "H", "count", (7,))],
}
DICT_WRITES = {
    "setitem": [("op", "H", "setitem", ("a", 1))],
    "delitem": [("op", "H", "delitem", ("k",))],
    "update": [("op", "H", "update", ({"u": 1}, {}))],
    "reset": [("op", "H", "reset", ({"r": 1},))],
    "child-setitem": [("op", "C", "setitem", ("x", 5))],
    "setitem2": [("op", "H", "setitem", ("a", 1)), ("op", "H", "setitem", ("b", 2))],
}
LIST_WRITES = {
    "append": [("op", "H", "append", (7,))],
    "delitem": [("op", "H", "delitem", (0,))],
    "insert": [("op", "H", "insert", (0, 7))],
    "reset": [("op", "H", "reset", ([7],))],
    "child-setitem": [("op", "C", "setitem", ("x", 5))],
    "append2": [("op", "H", "append", (7,)), ("op", "H", "append", (8,))],
}
CORE_R = {"dict": ("getitem", "get", "len", "iter", "call", "nav-read"), "list": ("getitem", "len", "iter", "call", "contains", "nav-read")}
CORE_W = {"dict": ("setitem", "delitem", "update", "child-setitem"), "list": ("append", "delitem", "insert", "child-setitem")}


def build(clsname, topo, rname, wname, ctx, second_reader=None, pre_session=False):
    k = env.kind_of(clsname)
    reads = DICT_READS if k == "dict" else LIST_READS
    writes = DICT_WRITES if k == "dict" else LIST_WRITES
    ckey = "c" if k == "dict" else 1
    missing = topo == "two-objects-missing-file"
    fresh = topo == "two-objects-fresh"  # neither object has loaded anything when the threads start
    if fresh and (rname == "nav-read" or wname == "child-setitem"):
        return None
    if missing and (rname == "nav-read" or wname == "child-setitem" or rname in ("getitem", "eq") or wname in ("delitem", "reset")):
        return None
    if topo == "same-object":
        objects = (0,)
        prefix = (("nav", 0, ckey),)
        rmap = {"H": 0, "C": 1}
        wmap = {"H": 0, "C": 1}
    else:
        objects = (0, 0)
        prefix = (("nav", 0, ckey), ("nav", 1, ckey))
        rmap = {"H": 0, "C": 2}
        wmap = {"H": 1, "C": 3}

    def inst(evs, m):
        return [(e[0], m[e[1]], e[2], e[3]) for e in evs]

    threads = [inst(reads[rname], rmap), inst(writes[wname], wmap)]
    names = [rname, wname]
    if second_reader:
        threads.append(inst(reads[second_reader], rmap))
        names.append(second_reader)
    if second_reader:
        topo_label = topo + ":two-readers-one-object"  # the second reader uses the FIRST reader's object
    else:
        topo_label = topo
    if missing or fresh:
        prefix = ()
    cfg = seq.Config(clsname, initial=(env.ABSENT if missing else INIT[k],), objects=objects, prefix=prefix, label=clsname)
    if pre_session:
        # an earlier complete backend-wide session in which every object read the file: whatever the objects share
        # or remember from it (aliased containers, registrations, caches) is in place when the threads start
        return {"label": "%s/%s/%s/%s/after-session" % (clsname, topo, "ctx" if ctx else "noctx", "||".join(names)), "cfg": cfg,
                "ctx": ctx, "threads": threads, "pair": "r:%s||w:%s" % (rname, wname), "topology": topo + ":after-session",
                "property": PROPERTY, "module": __name__, "final_views": topo != "same-object",
                "pre_ctx": (("enter_cls", None),) + tuple(("op", o, "len", ()) for o in range(len(objects))) + (("exit_cls",),)}
    return {"label": "%s/%s/%s/%s" % (clsname, topo, "ctx" if ctx else "noctx", "||".join(names)), "cfg": cfg,
            "ctx": ctx, "threads": threads, "pair": "r:%s||w:%s" % (rname, wname) + ("||r:" + second_reader if second_reader else ""),
            "topology": topo_label, "property": PROPERTY, "module": __name__,
            # after the threads have finished every object must show the final content (a reader that cached what it saw
            # during the race would not); same-object programs are dominated by the open finding D17 anyway
            "final_views": topo != "same-object"}



def plan(tier, seed):
    p1, p2 = [], []
    fams = [("JSON", None), ("Buffered", ("cls", None)), ("MemoryBuffered", ("cls", None))]
    if tier != "quick":
        fams += [("JSONAttr", None), ("Buffered", None), ("MemoryBuffered", None), ("BufferedAttr", ("cls", None))]
    for fam, ctx in fams:
        for c in env.JSON_FAMILIES[fam]:
            k = env.kind_of(c)
            rs = CORE_R[k] if tier == "quick" else tuple(DICT_READS if k == "dict" else LIST_READS)
            ws = CORE_W[k] if tier == "quick" else tuple(DICT_WRITES if k == "dict" else LIST_WRITES)
            for topo in ("same-object", "two-objects", "two-objects-missing-file") + \
                    (("two-objects-fresh",) if (ctx is None or tier != "quick") else ()):
                for r in rs:
                    for w in ws:
                        pr = build(c, topo, r, w, ctx)
                        if pr is not None:
                            p1.append(pr)
                if ctx is not None and topo == "two-objects":
                    for r in (rs[:2] if tier == "quick" else rs):
                        for w in (ws[:2] if tier == "quick" else ws):
                            pr = build(c, topo, r, w, ctx, pre_session=True)
                            if pr is not None:
                                p1.append(pr)
                if tier != "quick" and fam in ("JSON", "Buffered") and ctx == fams[0][1] or (tier != "quick" and fam == "Buffered" and ctx):
                    for r in CORE_R[k][:3]:
                        for w in CORE_W[k][:2]:
                            p2.append(build(c, topo, r, w, ctx))
                            p1.append(build(c, topo, r, w, ctx, second_reader=CORE_R[k][3]))
    if tier == "quick":
        # a small bound-2 core in the quick tier: a reader that opens two files (or one file twice) can only be caught
        # between the writer's steps with two preemptions
        for c, r, w in (("JSONDict", "getitem", "setitem"),):
            p2.append(build(c, "two-objects-fresh", r, w, None))
    p1 = [x for x in p1 if x is not None]
    p2 = [x for x in p2 if x is not None]
    tasks = []

    def chunk(progs, n, **kw):
        for i in range(0, len(progs), n):
            part = progs[i:i + n]
            tasks.append(dict(kind="sched", label="%s..+%d" % (part[0]["label"], len(part) - 1), programs=part, **kw))

    chunk(p1, 6, bound=1, reduction=True)
    chunk(p2, 1, bound=2, reduction=True, max_executions=60000)
    return tasks


def run_task(task):
    return schedcheck.run_sched_task(task)


def replay(doc):
    return schedcheck.replay_sched(doc)
