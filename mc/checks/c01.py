"""C01 Write-through: after every mutator returns, the resource holds the new logical content."""
from .. import alpha, env, model, seq, seqcheck

PROPERTY = "C01"
LEVEL = "model_checking"
RULE = ("BFS over histories of public mutators (dict and list surface, arguments from a scalar/container "
        "pool) issued on the root and on retained child handles up to depth 3, plus navigation events and a wholesale "
        "rewrite of the resource by an outside writer between two mutators, and mutators whose save fails once (ENOSPC at "
        "the atomic replace) followed by more mutators through the same objects; every "
        "history replayed on a fresh world of the real class; states merged by a structural hash of the "
        "object graph + reference state; non-trivial = distinct reached states (digest)")
BOUNDS = {"quick": "18 classes x 2 initial contents, depth 2 (core values), depth 3 for JSONDict/JSONList/MemoryBufferedJSONDict/BufferedJSONList; JSON and Buffered families also in the in-place and write_concern write modes (threading off)",
          "thorough": "18 classes x 2 initial contents, depth 3 (core values); JSONDict/JSONList depth 3 full values"}
ASSUMPTIONS = ["Redis/MongoDB/Zarr classes are decided against in-process fake stores (stubs for bson/numcodecs)",
               "reference model = built-in dict/list on plain JSON data"]


# what an outside writer (another process) leaves in the resource between two mutators: same skeleton as the
# nested initial content, so retained child handles stay attached, different leaves
ALT = {"dict": {"a": {"b": [7, {"c": 8}]}, "x": 1}, "list": [7, [8, {"a": 9}], {"b": []}]}


def alphabet(ref, task):
    vals = getattr(alpha, task["extra"].get("values", "VALUES_CORE"))
    ev = alpha.nav_events(ref) + alpha.mutator_events(ref, vals, rich=task["extra"].get("rich", True))
    if task["extra"].get("faults") and ref.disk[0] is not env.ABSENT:
        # a mutator whose save fails once (ENOSPC at the atomic replace), through the root and through the first
        # retained child: the NEXT mutators through the very same objects must write through again
        for h in ref.attached_handles()[:2]:
            if ref.handle_kind(h) == "dict":
                ev.append(("fop", h, "setitem", ("f", 1)))
            else:
                ev.append(("fop", h, "append", ("f",)))
    alt = ALT[ref.rootkind]
    if not model.exact_eq(ref.disk[0], alt):
        # no read is inserted after it: the next mutator itself has to notice (and must not skip or mis-merge its write)
        ev.append(("ext", 0, (), alt))
    return ev


class Hooks:
    def probe(self, run):
        out = []
        ref, world = run.ref, run.world
        for r, res in enumerate(world.resources):
            want = ref.logical(r)
            # collection() of the first root object on r must equal the reference as well
            for o, rr in enumerate(ref.obj_res):
                if rr == r:
                    got = model.to_plain(world.objects[o]())
                    w = ref.empty() if want is env.ABSENT else want
                    if not model.exact_eq(got, w):
                        out.append(("view", "collection() of object %d is %r, reference %r" % (o, got, w)))
                    break
        return out


def make_hooks(name, task):
    return Hooks()


def plan(tier, seed):
    tasks = []
    classes = env.all_classes()
    for c in classes:
        k = env.kind_of(c)
        for nm, init in (("empty", env.ABSENT), ("nested", alpha.init_for(k))):
            cfg = seq.Config(c, initial=(init,), label=c)
            faults = env.family_of(c) in env.JSON_FAMILIES  # default write mode = atomic replace
            if tier == "quick":
                depth, extra = 2, {"values": "VALUES_MIN", "rich": True, "faults": faults}
            else:
                depth, extra = 3, {"values": "VALUES_MIN", "rich": True, "faults": faults}
                if c in ("JSONDict", "JSONList"):
                    extra = {"values": "VALUES_CORE", "rich": True, "faults": faults}
            if tier == "quick" and c in ("JSONDict", "JSONList", "MemoryBufferedJSONDict", "BufferedJSONList") and nm == "nested":
                depth = 3
            kw = dict(label="%s/%s/d%d" % (c, nm, depth), cfg=cfg, alphabet="alphabet", depth=depth,
                      oracles={"resource"}, hooks="probe", extra=extra)
            if depth >= 3:
                tasks += seqcheck.split(16, level=2, **kw)
            else:
                tasks.append(seqcheck.make_task(**kw))
            if env.family_of(c) in ("JSON", "Buffered") and nm == "nested":
                # the two other write modes: in-place (threading off) and write_concern with threading off
                for mode, wc in (("inplace", False), ("wc", True)):
                    cfg2 = seq.Config(c, initial=(init,), label=c + "/" + mode, write_concern=wc, options={"threading": False})
                    tasks.append(seqcheck.make_task("%s/%s/%s/d%d" % (c, nm, mode, 2), cfg2, "alphabet", 2,
                                                    {"resource"}, hooks="probe", extra={"values": "VALUES_MIN", "rich": True}))
    return tasks


def run_task(task):
    import sys
    return seqcheck.run_seq_task(sys.modules[__name__], task)


def replay(doc):
    return seqcheck.replay_seq(doc)
