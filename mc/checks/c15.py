"""C15 Buffer size accounting is exact, bounded by capacity, and returns to zero."""
import json
import sys

from .. import env, model, seq, seqcheck

PROPERTY = "C15"
LEVEL = "model_checking"
RULE = ("BFS over histories on 2-3 files of mutators (incl. clear/reset as FIRST buffered access = save without load), "
        "reads, LIFO enter/exit of obj.buffered and Class.buffer_backend(capacity) with capacities {none, smaller than one "
        "document, between one and two documents, huge}, nested overrides and set_buffer_capacity; after EVERY call: "
        "reported size <= capacity; size == 0 when no context is active; under default/huge capacity size == sum of encoded "
        "bytes of the files in the buffer (serialized) / number of buffered files a mutator touched (shared-memory); size == "
        "recomputation from the entry table when introspectable; capacity == the model's (restored at exits); reads and "
        "final files equal the reference (a forced flush loses nothing); non-trivial = distinct reached states; plus error "
        "paths: every environment call inside a flushing / buffered window fails once with every applicable errno, then size 0, "
        "nothing buffered, capacity as before and a consistent later session are required")
BOUNDS = {"quick": "fault cases: 10 windows x 3 classes; 2 files; depth 5 MemoryBufferedJSONDict, depth 4 BufferedJSONDict and MemoryBufferedJSONList, depth 3 BufferedJSONList",
          "thorough": "2 files depth 6 all 8 classes; 3 files depth 5"}
ASSUMPTIONS = ["the exact-recomputation oracle reads Class._buffer if it exists (skipped with a note if the layout changes)"]

INIT = {"dict": {"k": 0}, "list": [0]}


def caps(clsname):
    if env.is_memory_buffered(clsname):
        return {"tiny": 0, "mid": 1, "huge": 10 ** 6}
    return {"tiny": 3, "mid": 30, "huge": 10 ** 6}


def alphabet(ref, task):
    ev = []
    c = caps(task["cfg"].clsname)
    kind_ = ref.rootkind
    for o in range(len(ref.obj_res)):
        if kind_ == "dict":
            ev += [("op", o, "setitem", ("w", task["level"] % 2)), ("op", o, "clear", ()), ("op", o, "reset", ({"r": 1},)),
                   ("op", o, "call", ())]
        else:
            ev += [("op", o, "append", (1,)), ("op", o, "clear", ()), ("op", o, "reset", ([9, 9],)), ("op", o, "call", ())]
    if len(ref.ctx_stack) < task["extra"].get("max_nest", 2):
        ev.append(("enter", 0))
        ev += [("enter_cls", None), ("enter_cls", c["tiny"]), ("enter_cls", c["mid"]), ("enter_cls", c["huge"])]
    if ref.ctx_stack:
        top = ref.ctx_stack[-1]
        ev.append(("exit", top[1]) if top[0] == "obj" else ("exit_cls",))
        ev += [("setcap", c["tiny"]), ("setcap", c["mid"])]
    return ev


class Hooks:
    """Maintains the model capacity across the replay and checks the size after the last event."""

    def before_event(self, run, ev, last):
        sc = run.scratch
        if "cap" not in sc:
            sc["cap"] = env.default_capacity(run.cfg.clsname)
            sc["stack"] = []

    def after_event(self, run, ev, outcome, exp, info, last):
        sc = run.scratch
        t = ev[0]
        if t == "enter_cls":
            if ev[1] is not None:
                sc["stack"].append(sc["cap"])
                sc["cap"] = ev[1]
            else:
                sc["stack"].append(None)
        elif t == "exit_cls":
            old = sc["stack"].pop()
            if old is not None:
                sc["cap"] = old
        elif t == "setcap":
            sc["cap"] = ev[1]
        if not last:
            return []
        out = []
        ref, world = run.ref, run.world
        k = world.klass
        size = k.get_current_buffer_size()
        cap = k.get_buffer_capacity()
        if cap != sc["cap"]:
            out.append(("capacity", "after %r capacity is %r, expected %r" % (ev, cap, sc["cap"])))
        if size > cap:
            out.append(("over-capacity", "after %r reported size %r exceeds capacity %r" % (ev, size, cap)))
        active = ref.cls_depth > 0 or any(ref.obj_depth)
        if not active and size != 0:
            out.append(("nonzero-idle", "after %r reported size %r with no context active" % (ev, size)))
        if size < 0:
            out.append(("negative", "after %r reported size %r" % (ev, size)))
        mem = env.is_memory_buffered(run.cfg.clsname)
        # exact prediction when nothing can have forced a flush
        if ref.cap_default:
            if mem:
                want = sum(1 for r in range(len(ref.disk)) if ref.in_buf[r] and ref.changed_w[r])
            else:
                want = sum(len(json.dumps(ref.buf[r]).encode()) for r in range(len(ref.disk)) if ref.in_buf[r])
            if size != want:
                out.append(("size-mismatch", "after %r reported size %r, the buffered files account for %r" % (ev, size, want)))
        # recomputation from the entry table (tolerant of layout changes)
        buf = getattr(k, "_buffer", None)
        if isinstance(buf, dict):
            try:
                mine = {getattr(r, "path", None) for r in world.resources}
                ents = [v for f, v in buf.items() if f in mine]
                if mem:
                    re = sum(1 for v in ents if v.get("modified"))
                else:
                    re = sum(len(v["contents"]) for v in ents)
                foreign = [f for f in buf if f not in mine]
                if not foreign and size != re:
                    out.append(("table-mismatch", "after %r reported size %r, entry table accounts for %r" % (ev, size, re)))
            except Exception:  # noqa: BLE001
                run.scratch["table_skipped"] = True
        return out

    def probe(self, run):
        out = []
        ref, world = run.ref, run.world
        k = world.klass
        try:
            while ref.ctx_stack:
                top = ref.ctx_stack[-1]
                ev = ("exit", top[1]) if top[0] == "obj" else ("exit_cls",)
                oc = world.apply(ev)
                ref.apply(ev)
                self.after_event(run, ev, oc, None, {}, False)
                if oc[0] == "exc":
                    out.append(("ctxerr", "closing %r raised %s: %s" % (ev, type(oc[1]).__name__, oc[1])))
            for r in range(len(world.resources)):
                ref.disk_known[r] = True
                why = seq.compare_disk(ref, world, r)
                if why:
                    out.append(("final-file", "after leaving every context: " + why))
            if k.get_current_buffer_size() != 0:
                out.append(("nonzero-idle", "size %r after leaving every context" % k.get_current_buffer_size()))
            if k.get_buffer_capacity() != run.scratch["cap"]:
                out.append(("capacity", "capacity %r after leaving every context, expected %r" % (k.get_buffer_capacity(), run.scratch["cap"])))
            # aftermath: nothing of this history may linger in the buffer - an unbuffered write followed by an
            # ordinary buffered session (read, write, exit) must behave like on a fresh process
            k.set_buffer_capacity(env.default_capacity(run.cfg.clsname))
            kind_ = ref.rootkind
            for o, obj in enumerate(world.objects):
                if kind_ == "dict":
                    obj["aft"] = o
                else:
                    obj.append("aft")
            want = [model.to_plain(world.resources[ref.obj_res[o]].read()) for o in range(len(world.objects))]
            try:
                with k.buffer_backend():
                    for o, obj in enumerate(world.objects):
                        got = model.to_plain(obj())
                        if not model.exact_eq(got, want[o]):
                            out.append(("stale-later-session", "a later buffered session shows %r for object %d, the file holds %r" % (got, o, want[o])))
                        if kind_ == "dict":
                            obj["aft2"] = o
                        else:
                            obj.append("aft2")
            except Exception as e:  # noqa: BLE001
                out.append(("later-session-error", "a later ordinary buffered session raised %s: %s" % (type(e).__name__, e)))
            for o, obj in enumerate(world.objects):
                disk = model.to_plain(world.resources[ref.obj_res[o]].read())
                ok = ("aft2" in disk) if isinstance(disk, (dict, list)) else False
                if not ok:
                    out.append(("later-session-lost", "the write of a later buffered session did not reach file %d (%r)" % (o, disk)))
            if k.get_current_buffer_size() != 0:
                out.append(("nonzero-idle", "size %r after the later session" % k.get_current_buffer_size()))
        except Exception as e:  # noqa: BLE001
            out.append(("probe-error", "%s: %s" % (type(e).__name__, e)))
        return out


def make_hooks(name, task):
    return Hooks()


def plan(tier, seed):
    tasks = []
    if tier == "quick":
        combos = [("BufferedJSONDict", 2, 4), ("MemoryBufferedJSONDict", 2, 5), ("BufferedJSONList", 2, 3), ("MemoryBufferedJSONList", 2, 4)]
    else:
        combos = [(c, 2, 6) for fam in env.BUFFERED_FAMILIES for c in env.JSON_FAMILIES[fam]] + \
                 [("BufferedJSONDict", 3, 5), ("MemoryBufferedJSONDict", 3, 5)]
    for c, n, depth in combos:
        kind_ = env.kind_of(c)
        cfg = seq.Config(c, initial=(INIT[kind_],) * n, objects=tuple(range(n)), label="%s/%dfiles" % (c, n))
        kw = dict(label="%s/d%d" % (cfg.label, depth), cfg=cfg, alphabet="alphabet", depth=depth,
                  oracles={"result", "ctxerr"}, hooks="probe", extra={"max_nest": 2})
        if depth >= 6:
            kw["max_transitions"] = 50000
        tasks += seqcheck.split(4 if depth <= 3 else (8 if depth == 4 else 32), level=2, **kw)
    fc = ("BufferedJSONDict", "MemoryBufferedJSONDict", "BufferedJSONList") if tier == "quick" else \
        [c for fam in env.BUFFERED_FAMILIES for c in env.JSON_FAMILIES[fam]]
    for c in fc:
        for nm in fault_scenarios(c):
            tasks.append({"kind": "fault", "label": "%s/fault/%s" % (c, nm), "clsname": c, "scenario": nm})
    return tasks


# --------------------------------------------------------------------------------------
# Accounting on error paths: one environment call of a flushing / buffered operation fails
# --------------------------------------------------------------------------------------
# The BFS above only meets the errors an outside writer can provoke.  Here every environment call (open, read,
# write, close, os.replace, os.stat) made inside a window - leaving a context, a capacity-forced flush, a
# buffered operation - is made to fail once with every applicable errno; afterwards the remaining contexts are
# left and the accounting must be back to its resting state: size 0, nothing buffered, capacity as before, and a
# later ordinary buffered session shows what is on disk and ends at size 0 again.

import errno as _errno

FAULT_ERRORS = {
    "open-r": (_errno.EACCES, _errno.EIO),
    "read": (_errno.EIO,),
    "open-w": (_errno.EACCES, _errno.ENOSPC),
    "write": (_errno.ENOSPC,),
    "close": (_errno.EIO,),
    "replace": (_errno.EACCES,),
    "stat": (_errno.EACCES, _errno.ENOTDIR),
}


def fault_scenarios(clsname):
    kind_ = env.kind_of(clsname)
    c = caps(clsname)
    w = (lambda o, v: ("op", o, "setitem", ("w", v))) if kind_ == "dict" else (lambda o, v: ("op", o, "append", (v,)))
    rd = lambda o: ("op", o, "call", ())
    rs = lambda o: ("op", o, "reset", ({"r": 1} if kind_ == "dict" else [9, 9],))
    return {
        "cls-exit": ((("enter_cls", None), w(0, 1), w(1, 2)), (("exit_cls",),)),
        "cls-exit-1readonly": ((("enter_cls", None), w(0, 1), rd(1)), (("exit_cls",),)),
        "obj-exit": ((("enter", 0), w(0, 1)), (("exit", 0),)),
        "obj-in-cls-exit": ((("enter_cls", None), ("enter", 0), w(0, 1), w(1, 2), ("exit", 0)), (("exit_cls",),)),
        "forced-by-setcap": ((("enter_cls", None), w(0, 1), w(1, 2)), (("setcap", c["tiny"]),)),
        "forced-by-write": ((("enter_cls", c["mid"]), w(0, 1)), (w(1, 2),)),
        "buffered-first-write": ((("enter_cls", None),), (w(0, 1),)),
        "buffered-first-read": ((("enter_cls", None),), (rd(0),)),
        "buffered-first-reset": ((("enter_cls", None),), (rs(0),)),
        "second-write": ((("enter_cls", None), w(0, 1)), (w(0, 2), w(1, 3))),
    }


def run_fault_case(clsname, scn, fail):
    """-> dict(calls, raised, problems)"""
    from .. import fault
    kind_ = env.kind_of(clsname)
    pre, window = scn
    cfg = seq.Config(clsname, initial=(INIT[kind_], INIT[kind_]), objects=(0, 1))
    world = seq.World(cfg)
    k = world.klass
    problems = []
    cap0 = k.get_buffer_capacity()
    try:
        for ev in pre:
            oc = world.apply(ev)
            if oc and oc[0] == "exc":
                return {"calls": [], "raised": False, "problems": [("probe-error", "pre event %r raised %r" % (ev, oc[1]))]}
        hooks = fault.Hooks(fail=fail)
        raised = False
        hooks.install()
        try:
            hooks.active = True
            for ev in window:
                if ev[0] == "op":
                    try:
                        model.impl_call(world.handle_objs[ev[1]], ev[2], ev[3], world.mk_synced)
                    except Exception:  # noqa: BLE001
                        raised = True
                else:
                    oc = world.apply(ev)
                    raised = raised or bool(oc and oc[0] == "exc")
        finally:
            hooks.active = False
            hooks.uninstall()
        result = {"calls": hooks.calls, "raised": raised, "problems": problems}
        if fail is None:
            return result
        # leave whatever is still entered; a flush may legitimately raise again (it still has a conflict / the error
        # made it give up) - the accounting afterwards is what is judged
        for o in world.objects:
            b = getattr(o, "buffered", None)
            n = 0
            while b is not None and b and n < 5:
                n += 1
                try:
                    b.__exit__(None, None, None)
                except Exception:  # noqa: BLE001
                    pass
        while world.cls_ctx:
            try:
                world.cls_ctx.pop().__exit__(None, None, None)
            except Exception:  # noqa: BLE001
                pass
        if any(ev[0] == "setcap" for ev in window):
            k.set_buffer_capacity(cap0)
        size = k.get_current_buffer_size()
        if size != 0:
            problems.append(("nonzero-idle", "reported size %r with no context active" % size))
        if k.backend_is_buffered():
            problems.append(("still-buffered", "backend_is_buffered() with no context active"))
        if k.get_buffer_capacity() != cap0:
            problems.append(("capacity", "capacity %r, was %r before" % (k.get_buffer_capacity(), cap0)))
        try:
            with k.buffer_backend():
                for o, obj in enumerate(world.objects):
                    got = model.to_plain(obj())
                    want = world.resources[o].read()
                    if not model.exact_eq(got, want):
                        problems.append(("stale-later-session", "a later buffered session shows %r for object %d, the file holds %r" % (got, o, want)))
                mid = k.get_current_buffer_size()
                fresh_want = None
                if not env.is_memory_buffered(clsname):
                    fresh_want = sum(len(json.dumps(world.resources[o].read()).encode()) for o in range(len(world.objects)))
                    # the files are re-encoded by the library on load; compare with the bytes actually on disk as well
                    alt = sum(len(world.resources[o].read_bytes() or b"") for o in range(len(world.objects)))
                    if mid not in (fresh_want, alt):
                        problems.append(("size-mismatch", "a later read-only session reports size %r, the two files account for %r" % (mid, alt)))
                elif mid != 0:
                    problems.append(("size-mismatch", "a later read-only session reports size %r (no file modified)" % mid))
        except Exception as e:  # noqa: BLE001
            problems.append(("later-session-error", "a later ordinary buffered session raised %s: %s" % (type(e).__name__, e)))
        if k.get_current_buffer_size() != 0:
            problems.append(("nonzero-idle", "size %r after the later session" % k.get_current_buffer_size()))
        return result
    finally:
        seq._teardown(world)


def run_fault_task(task):
    from .. import isolate
    from ..runner import new_result
    env.lib()
    c = task["clsname"]
    scn = fault_scenarios(c)[task["scenario"]]

    def handler(fail):
        r = run_fault_case(c, scn, fail)
        return r, bool(r["problems"])

    server = isolate.Server(handler)
    res = new_result()
    try:
        base = server.call(None)
        if base["problems"]:
            res["errors"].append("%s: fault-free run has problems: %r" % (task["label"], base["problems"]))
            return res
        raisedn = 0
        for idx, kind_ in enumerate(base["calls"]):
            for err in FAULT_ERRORS.get(kind_, ()):
                r = server.call((idx, err))
                res["evaluations"] += 1
                res["transitions"] += 1
                raisedn += 1 if r["raised"] else 0
                for pk, detail in r["problems"]:
                    res["violations"].append({
                        "signature": "%s|%s/fault|%s|%s:%s|%s" % (PROPERTY, c, task["scenario"], kind_, _errno.errorcode.get(err, err), pk),
                        "detail": "%s with env call #%d (%s) failing with %s: %s" % (task["scenario"], idx, kind_, _errno.errorcode.get(err, err), detail),
                        "replay": {"engine": "c15fault", "module": __name__, "clsname": c, "scenario": task["scenario"],
                                   "history": [idx, err]}})
        res["nontrivial"] = raisedn
        res["states"] = len(base["calls"])
        res["samples"] = [{"class": c, "scenario": task["scenario"], "env_calls": base["calls"][:16], "fault_cases": res["evaluations"]}]
        res["outcomes"] = {"fault-cases:raised": raisedn, "fault-cases:absorbed": res["evaluations"] - raisedn}
    finally:
        server.close()
    return res


def run_task(task):
    if task.get("kind") == "fault":
        return run_fault_task(task)
    return seqcheck.run_seq_task(sys.modules[__name__], task)


def replay(doc):
    if doc.get("engine") == "c15fault":
        env.lib()
        idx, err = doc["history"]
        r = run_fault_case(doc["clsname"], fault_scenarios(doc["clsname"])[doc["scenario"]], (idx, err))
        return r["problems"]
    return seqcheck.replay_seq(doc)
