"""C18 Nested containers keep the root's family; attribute access equals item access."""
import keyword
import sys

from .. import alpha, env, model, seq, seqcheck
from ..env import ABSENT
from ..runner import new_result

PROPERTY = "C18"
LEVEL = "model_checking"
RULE = ("(a) BFS over mixed histories (mutators - also storing a synced collection of ANOTHER family as a value -, outside rewrites that change a position's kind, a second object, buffered "
        "contexts for the buffered families); after EVERY history the whole tree is walked by navigation and every container "
        "must be an instance of the root family's dict/list class, and a write through the deepest container must reach the "
        "resource; (b) differential enumeration for the three attribute-access dict classes at depth 0-2: key pool = ordinary "
        "names + every _PROTECTED_KEYS entry + every instance attribute a constructor sets + every public method name + dunders "
        "+ non-identifiers; for get/set/del the attribute-syntax program and the item-syntax program run on two fresh objects "
        "and must coincide for ordinary keys (KeyError<->AttributeError); protected names must address the object itself, an "
        "item write of a protected name must leave all internal attributes identical and the object functional, and every "
        "instance attribute must be in the protected set; non-trivial = distinct reached states + distinct (class, depth, key, "
        "verb) cases")
BOUNDS = {"quick": "(a) 18 classes depth 3; (b) 3 classes x 3 depths x full key pool",
          "thorough": "(a) depth 4; (b) same + buffered contexts around the programs"}
ASSUMPTIONS = ["(a) runs in processes in which every other JSON class family has already done ordinary work (warm-up), the remaining "
               "checks run in pristine processes", "family table by public class name", "server backends against fake stores"]

INIT = {"dict": {"a": {"b": [0, {"c": 0}]}, "k": 0, "l": [[1], {"d": 2}]},
        "list": [0, [1, {"a": 0}], {"b": [0, {"c": [1]}]}]}
NEWVALS = (None, 7, {"x": {"y": [1]}}, [0, {"z": []}], [], {})


def alphabet(ref, task):
    ev = []
    k = ref.rootkind
    for h in ref.attached_handles():
        if ref.handles[h]["path"]:
            continue
        if k == "dict":
            ev += [("op", h, "setitem", ("n", {"p": [1, {"q": {}}]})), ("op", h, "update", ({"a": [{"u": []}]}, {})),
                   ("op", h, "reset", ({"r": {"s": [[{}]]}},)), ("op", h, "setdefault", ("sd", [{"t": 1}])),
                   ("op", h, "setpath", (("a",), "deep", {"e": [{}]})), ("op", h, "call", ()),
                   # a collection of ANOTHER family (bound to its own file) stored as a value: what arrives is a copy of
                   # its data in the root's family
                   ("op", h, "setitem", ("f", ("#foreign", {"p": [1, {"q": {}}]}))),
                   ("op", h, "setdefault", ("fl", ("#foreign", [0, {"z": []}]))),
                   ("op", h, "update", ({"fu": ("#foreign", {"w": [{}]})}, {}))]
        else:
            ev += [("op", h, "append", ({"p": [1, {"q": {}}]},)), ("op", h, "extend", ([[{"u": []}]],)),
                   ("op", h, "reset", ([{"s": [[{}]]}],)), ("op", h, "insert", (0, [{"t": 1}])),
                   ("op", h, "setitem", (1, {"e": [{}]})), ("op", h, "call", ()),
                   ("op", h, "append", (("#foreign", {"p": [1, {"q": {}}]}),)),
                   ("op", h, "insert", (0, ("#foreign", [0, {"z": []}]))),
                   ("op", h, "extend", ([("#foreign", {"w": [{}]})],))]
    disk = ref.disk[0]
    if disk is not ABSENT:
        positions = (("a",), ("a", "b"), ("l", 1), ("k",)) if k == "dict" else ((1,), (1, 1), (2,), (0,))
        for pos in positions:
            try:
                model.get_at(disk, pos)
            except (KeyError, IndexError, TypeError):
                continue
            for v in NEWVALS:
                ev.append(("ext", 0, pos, v))
    if len(ref.obj_res) < 2:
        ev.append(("new", 0))
    if ref.bufferable:
        if len(ref.ctx_stack) < 2:
            ev += [("enter", 0), ("enter_cls", None)]
        if ref.ctx_stack:
            top = ref.ctx_stack[-1]
            ev.append(("exit", top[1]) if top[0] == "obj" else ("exit_cls",))
    return ev


def walk_family(obj, dcls, lcls, path=(), out=None, depth=0):
    out = out if out is not None else []
    if depth > 8:
        return out
    try:
        keys = list(obj.keys()) if hasattr(obj, "keys") else list(range(len(obj)))
    except Exception as e:  # noqa: BLE001
        out.append(("walk-error", "navigating %r raised %s: %s" % (path, type(e).__name__, e)))
        return out
    for k in keys:
        try:
            child = obj[k]
        except Exception as e:  # noqa: BLE001
            out.append(("walk-error", "navigating %r raised %s: %s" % (path + (k,), type(e).__name__, e)))
            continue
        plain = model.to_plain(child)
        if isinstance(plain, dict):
            if type(child) is not dcls:
                out.append(("wrong-family", "container at %r is %s, expected %s" % (path + (k,), type(child).__name__, dcls.__name__)))
            elif env.is_synced(child):
                walk_family(child, dcls, lcls, path + (k,), out, depth + 1)
        elif isinstance(plain, list):
            if type(child) is not lcls:
                out.append(("wrong-family", "container at %r is %s, expected %s" % (path + (k,), type(child).__name__, lcls.__name__)))
            elif env.is_synced(child):
                walk_family(child, dcls, lcls, path + (k,), out, depth + 1)
    return out


def deepest(obj, path=()):
    best = (path, obj)
    try:
        keys = list(obj.keys()) if hasattr(obj, "keys") else list(range(len(obj)))
    except Exception:  # noqa: BLE001
        return best
    for k in keys:
        child = obj[k]
        if env.is_synced(child):
            cand = deepest(child, path + (k,))
            if len(cand[0]) > len(best[0]):
                best = cand
    return best


class Hooks:
    def probe(self, run):
        out = []
        world, ref = run.world, run.ref
        fam = env.family_of(run.cfg.clsname)
        dn, ln = env.ALL_FAMILIES[fam]
        dcls, lcls = env.cls(dn), env.cls(ln)
        for o, obj in enumerate(world.objects):
            out += walk_family(obj, dcls, lcls)
        if out:
            return out
        # a write through the deepest container must reach the resource (after leaving all contexts)
        if any(ref.in_buf[r] and ref.ext_after[r] for r in range(len(ref.disk))):
            return out  # the buffered copy conflicts with an outside write: its flush legitimately fails (C07)
        try:
            path, node = deepest(world.objects[0])
            if path:
                if hasattr(node, "keys"):
                    node["__deep__"] = 1
                else:
                    node.append("__deep__")
                while ref.ctx_stack:
                    top = ref.ctx_stack[-1]
                    ev = ("exit", top[1]) if top[0] == "obj" else ("exit_cls",)
                    world.apply(ev)
                    ref.apply(ev)
                disk = world.resources[ref.obj_res[0]].read()
                got = model.get_at(disk, path)
                ok = ("__deep__" in got) if isinstance(got, (dict, list)) else False
                if not ok:
                    out.append(("deep-write-lost", "a write through the container at %r did not reach the resource (%r)" % (path, got)))
        except Exception as e:  # noqa: BLE001
            out.append(("probe-error", "%s: %s" % (type(e).__name__, e)))
        return out


def make_hooks(name, task):
    return Hooks()


# ---- (b) attribute syntax vs item syntax ---------------------------------------------------------

def key_pool(klass, obj):
    ordinary = ["foo", "x1", "data", "Name", "_private", "camelCase", "k"]
    protected = sorted(klass._PROTECTED_KEYS)
    inst = sorted(vars(obj))
    methods = sorted(n for n in dir(klass) if not n.startswith("_"))
    dunders = ["__len__", "__dict__", "__class__", "__custom__", "__getitem__"]
    nonident = ["", "a b", "1x", "ключ", "class", "with-dash"]
    pool = []
    for grp, names in (("ordinary", ordinary), ("protected", protected), ("instance", inst), ("method", methods),
                       ("dunder", dunders), ("nonident", nonident)):
        for n in names:
            pool.append((grp, n))
    return pool


def navigate(obj, depth):
    for _ in range(depth):
        obj = obj["sub"]
    return obj


def outcome(fn):
    try:
        return ("ok", model.canon_json(model.to_plain(fn())))
    except Exception as e:  # noqa: BLE001
        n = type(e).__name__
        return ("exc", "KeyError/AttributeError" if n in ("KeyError", "AttributeError") else n)


def diff_cases(clsname, ctx):
    env.lib()
    klass = env.cls(clsname)
    res = new_result()
    init = {"sub": {"sub": {"present": 1, "k": 5}, "present": 1, "k": 5}, "present": 1, "k": 5}

    def fresh():
        r = env.resource_for(clsname, init)
        return r, r.make(clsname)

    r0, o0 = fresh()
    pool = key_pool(klass, o0)
    # every instance attribute must be protected
    for n in vars(o0):
        if n not in klass._PROTECTED_KEYS:
            res["violations"].append(_v(clsname, "instance-attr:" + n, "unprotected-attribute",
                                        "instance attribute %r is set by the constructor but is not in _PROTECTED_KEYS" % n))
    for n in vars(navigate(o0, 1)):
        if n not in klass._PROTECTED_KEYS:
            res["violations"].append(_v(clsname, "instance-attr:" + n, "unprotected-attribute",
                                        "nested instance attribute %r is not in _PROTECTED_KEYS" % n))
    r0.destroy()
    class_attrs = set(dir(klass))
    # attribute assignment to a class-level data descriptor with a setter (e.g. the `filename` property) must
    # reach the object itself and never become a data item
    for name in sorted(class_attrs):
        desc = None
        for base in klass.__mro__:
            if name in vars(base):
                desc = vars(base)[name]
                break
        if isinstance(desc, property) and desc.fset is not None and not name.startswith("_"):
            for depth in (0, 1):
                res["evaluations"] += 1
                r1, o1 = fresh()
                other = env.resource_for(clsname, {"elsewhere": 1})
                try:
                    t1 = navigate(o1, depth)
                    value = getattr(other, "path", "v") if name == "filename" else getattr(t1, name)
                    try:
                        setattr(t1, name, value)
                    except Exception:  # noqa: BLE001
                        pass
                    view = model.to_plain(r1.make(clsname)())
                    node = model.get_at(view, ("sub",) * depth)
                    if isinstance(node, dict) and name in node:
                        res["violations"].append(_v(clsname, "set:descriptor:%s@d%d" % (name, depth), "descriptor-shadowed",
                                                    "obj.%s = ... stored a data item %r instead of using the class's setter" % (name, name)))
                finally:
                    r1.destroy()
                    other.destroy()
    for depth in (0, 1, 2):
        for grp, key in pool:
            special = key in klass._PROTECTED_KEYS or key.startswith("__") or key in class_attrs
            for verb in ("get", "get-none", "set", "set-none", "del", "get-missing", "del-missing"):
                res["evaluations"] += 1
                k2 = key
                if verb.endswith("missing"):
                    if grp != "ordinary" and grp != "nonident":
                        continue
                    k2 = key + "_absent"
                elif verb in ("get", "del") and not special:
                    pass
                ra, oa = fresh()
                ri, oi = fresh()
                try:
                    cm_a = cm_i = None
                    if ctx:
                        cm_a = klass.buffer_backend()
                        cm_a.__enter__()
                    ta, ti = navigate(oa, depth), navigate(oi, depth)
                    if not special:
                        # make the key present for get/del of ordinary keys
                        if verb in ("get", "del") and "." not in k2:
                            ta[k2] = 7
                            ti[k2] = 7
                        if verb == "get-none" and "." not in k2:
                            ta[k2] = None
                            ti[k2] = None
                        if verb in ("get", "get-missing", "get-none"):
                            a = outcome(lambda: getattr(ta, k2))
                            i = outcome(lambda: ti[k2])
                        elif verb in ("set", "set-none"):
                            val = {"v": [1]} if verb == "set" else None
                            a = outcome(lambda: setattr(ta, k2, val))
                            i = outcome(lambda: ti.__setitem__(k2, val))
                            if a == i and a[0] == "ok":
                                a = ("after-set", a, outcome(lambda: getattr(ta, k2)))
                                i = ("after-set", i, outcome(lambda: ti[k2]))
                        else:
                            a = outcome(lambda: delattr(ta, k2))
                            i = outcome(lambda: ti.__delitem__(k2))
                        if cm_a is not None:
                            cm_a.__exit__(None, None, None)
                            cm_a = None
                        va, vi = model.canon_json(model.to_plain(oa())), model.canon_json(model.to_plain(oi()))
                        fa, fi = model.canon_json(ra.read()), model.canon_json(ri.read())
                        if a != i or va != vi or fa != fi:
                            res["violations"].append(_v(clsname, "%s:%s@d%d" % (verb, grp, depth), "attr-item-differ",
                                                        "key %r depth %d %s: attribute syntax gave %r content %s, item syntax gave %r content %s"
                                                        % (k2, depth, verb, a, va, i, vi)))
                    elif verb in ("get-none", "set-none"):
                        pass
                    elif key in klass._PROTECTED_KEYS and verb in ("get", "set"):
                        before = {n: _ident(v) for n, v in vars(ti).items()}
                        if verb == "get":
                            # attribute syntax must reach the object itself, never the data
                            ti[key] = "DATA"
                            try:
                                got = getattr(ti, key)
                            except AttributeError:
                                got = None
                            if got == "DATA":
                                real = key in vars(ti) or key in class_attrs
                                res["violations"].append(_v(clsname, ("get:protected:%s@d%d" % (key, depth)) if real else
                                                            ("get:protected-nonattr@d%d" % depth), "protected-shadowed",
                                                            "obj.%s returns the data item after obj[%r] = 'DATA'" % (key, key)))
                        else:
                            ti[key] = "DATA"
                        after = {n: _ident(v) for n, v in vars(ti).items()}
                        if before != after:
                            res["violations"].append(_v(clsname, "%s:protected@d%d" % (verb, depth), "internals-disturbed",
                                                        "obj[%r] = 'DATA' changed internal attributes: %r" % (key, sorted(n for n in before if before[n] != after.get(n)))))
                        # still fully functional
                        ti["after"] = 1
                        if cm_a is not None:
                            cm_a.__exit__(None, None, None)
                            cm_a = None
                        want = model.get_at(ri.read(), ("sub",) * depth)
                        if want.get("after") != 1 or want.get(key) != "DATA":
                            res["violations"].append(_v(clsname, "%s:protected@d%d" % (verb, depth), "not-functional",
                                                        "after obj[%r] = 'DATA' the object no longer persists writes (%r)" % (key, want)))
                    else:
                        # class attribute / dunder: item write must be stored as data and leave the object usable
                        if verb == "set" and "." not in key:
                            ti[key] = 3
                            ti["after"] = 1
                            if cm_a is not None:
                                cm_a.__exit__(None, None, None)
                                cm_a = None
                            want = model.get_at(ri.read(), ("sub",) * depth)
                            if want.get(key) != 3 or want.get("after") != 1:
                                res["violations"].append(_v(clsname, "set:%s@d%d" % (grp, depth), "not-functional",
                                                            "obj[%r] = 3 was not stored or broke the object (%r)" % (key, want)))
                except Exception as e:  # noqa: BLE001
                    res["violations"].append(_v(clsname, "%s:%s@d%d" % (verb, grp, depth), "harness-exception",
                                                "key %r: %s: %s" % (key, type(e).__name__, e)))
                finally:
                    if cm_a is not None:
                        try:
                            cm_a.__exit__(None, None, None)
                        except Exception:  # noqa: BLE001
                            pass
                    ra.destroy()
                    ri.destroy()
    res["nontrivial"] = res["evaluations"]
    res["states"] = len(pool)
    res["samples"] = [{"class": clsname, "pool_size": len(pool), "protected": sorted(klass._PROTECTED_KEYS)[:8],
                       "instance_attributes": sorted(vars(o0))}]
    return res


def _ident(v):
    return id(v) if not isinstance(v, (str, int, float, bool, type(None))) else ("val", v)


def _v(clsname, tag, kind_, detail):
    return {"signature": "%s|%s|%s|%s" % (PROPERTY, clsname, tag, kind_), "detail": detail,
            "replay": {"engine": "c18b", "module": __name__, "clsname": clsname, "tag": tag}}


def plan(tier, seed):
    tasks = []
    for c in env.all_classes():
        k = env.kind_of(c)
        depth = 3 if tier == "quick" else 4
        if tier == "quick" and (env.family_of(c) in env.SERVER_FAMILIES or env.family_of(c) in env.ATTR_FAMILIES):
            depth = 2
        # every execution process first lets the OTHER class families do ordinary work (see env.warm_siblings): the
        # family of a nested container must not depend on which classes were used before in the process
        cfg = seq.Config(c, initial=(INIT[k],), label=c,
                         options={"warm_siblings": True} if env.family_of(c) in env.JSON_FAMILIES else None)
        kw = dict(label="a/%s/d%d" % (c, depth), cfg=cfg, alphabet="alphabet", depth=depth, oracles={"result"}, hooks="probe")
        if depth >= 4:
            kw["max_transitions"] = 40000
        tasks += seqcheck.split(4 if depth <= 3 else 16, **kw)
    for fam in env.ATTR_FAMILIES:
        c = env.JSON_FAMILIES[fam][0]
        tasks.append({"kind": "c18b", "label": "b/%s" % c, "clsname": c, "ctx": False})
        if fam != "JSONAttr" and tier != "quick":
            tasks.append({"kind": "c18b", "label": "b/%s/ctx" % c, "clsname": c, "ctx": True})
    return tasks


def run_task(task):
    if task["kind"] == "c18b":
        return diff_cases(task["clsname"], task["ctx"])
    return seqcheck.run_seq_task(sys.modules[__name__], task)


def replay(doc):
    if doc.get("engine") == "c18b":
        r = diff_cases(doc["clsname"], False)
        return [(v["signature"].split("|")[-1], v["detail"]) for v in r["violations"] if v["replay"]["tag"] == doc["tag"]]
    return seqcheck.replay_seq(doc)
