"""C09 Concurrent writers are linearizable: no update is ever lost."""
import itertools
import sys

from .. import env, schedcheck, seq

PROPERTY = "C09"
LEVEL = "model_checking"
NEEDS_SCHED = True
RULE = ("stateless exploration of ALL thread schedules up to a preemption bound (scheduling point = every executed "
        "line of library code, lock acquisition, thread start/end) of 2-thread programs built from every pair of "
        "public mutators on 5 topologies (same object, two objects on one file, root + nested child, same nested "
        "child, sibling children); oracle = the observation (each result/exception, final file) must equal that of "
        "some serial order executed on the implementation itself; non-trivial = distinct observations")
BOUNDS = {"quick": "JSON family: all pairs of a 6-op core per type x 5 topologies, bound 1 with reduction, plus "
                   "setitem||setitem / append||append on one object and on two objects at bound 2; other "
                   "families: 3-op core x 2 topologies, bound 1",
          "thorough": "JSON family: all pairs of the full mutator set x 5 topologies at bound 1 WITHOUT reduction; 3-op core "
                      "at bound 2 (also through objects the threads construct themselves); 3 threads x 1 op and 2 threads x 2 ops on the core at bound 1; other families 6-op core"}
ASSUMPTIONS = ["preemption only between source lines of library code (CPython polls the eval-breaker at calls and "
               "backward jumps)", "resolver/validator frames are invisible subtrees (validated in the thorough tier by "
               "re-running bound 1 without the reduction)", "threading support enabled (library default)"]

INIT = {"dict": {"k": 0, "c": {"k": 0, "x": 0}, "l": [0, 1, 2]},
        "list": [0, [0, 1, 2], {"k": 0, "x": 0}]}

DICT_OPS = {
    "setitem_diff": lambda t: ("setitem", (("a", "b", "d", "e", "f", "g")[t], t)),
    "setitem_same": lambda t: ("setitem", ("s", t)),
    "setitem_nested": lambda t: ("setitem", (("a", "b", "d", "e", "f", "g")[t], {"n": [t]})),
    "delitem": lambda t: ("delitem", ("k",)),
    "pop": lambda t: ("pop", ("k",)),
    "popitem": lambda t: ("popitem", ()),
    "setdefault": lambda t: ("setdefault", ("n", [t])),
    "setdefault_same": lambda t: ("setdefault", ("s", t + 10)),
    # a mapping AND keyword arguments: one call, one critical section (not one per argument form)
    "update": lambda t: ("update", ({"u%d" % t: t}, {"v%d" % t: t})),
    "clear": lambda t: ("clear", ()),
    "reset": lambda t: ("reset", ({"r%d" % t: t},)),
}
LIST_OPS = {
    "append": lambda t: ("append", (t + 7,)),
    "append_nested": lambda t: ("append", ({"n": [t + 7]},)),
    "insert_nested": lambda t: ("insert", (0, [t + 7, {"m": t}])),
    "extend": lambda t: ("extend", ([t + 7, t + 7],)),
    "insert": lambda t: ("insert", (0, t + 7)),
    "setitem": lambda t: ("setitem", (0, t + 7)),
    "delitem": lambda t: ("delitem", (0,)),
    "pop": lambda t: ("pop", ()),
    "remove": lambda t: ("remove", (0,)),
    "reverse": lambda t: ("reverse", ()),
    "iadd": lambda t: ("iadd", ([t + 7],)),
    "clear": lambda t: ("clear", ()),
    "reset": lambda t: ("reset", ([t + 7],)),
}
CORE6 = {"dict": ("setitem_diff", "setitem_same", "delitem", "setdefault_same", "update", "clear", "reset"),
         "list": ("append", "append_nested", "insert", "delitem", "pop", "reverse", "reset")}
CORE3 = {"dict": ("setitem_diff", "update", "pop"), "list": ("append", "insert", "delitem")}
CORE5 = {"dict": ("setitem_diff", "setdefault_same", "update", "clear", "reset"),
         "list": ("append", "append_nested", "pop", "delitem", "reset")}
OPS = {"dict": DICT_OPS, "list": LIST_OPS}


def topologies(rootkind):
    """name -> (objects, prefix navs, [handle of thread0, thread1, thread2], [kind per handle])"""
    if rootkind == "dict":
        c, l = "c", "l"
        ck, lk = "dict", "list"
    else:
        c, l = 2, 1
        ck, lk = "dict", "list"
    return {
        "same": ((0,), (), (0, 0, 0), (rootkind,) * 3),
        "two-objects": ((0, 0, 0), (), (0, 1, 2), (rootkind,) * 3),
        "root+child": ((0,), (("nav", 0, c),), (0, 1, 1), (rootkind, ck, ck)),
        "root+listchild": ((0,), (("nav", 0, l),), (0, 1, 1), (rootkind, lk, lk)),
        "same-child": ((0,), (("nav", 0, c),), (1, 1, 1), (ck,) * 3),
        "same-listchild": ((0,), (("nav", 0, l),), (1, 1, 1), (lk,) * 3),
        "siblings": ((0,), (("nav", 0, c), ("nav", 0, l)), (1, 2, 1), (ck, lk, ck)),
        "children-of-two-objects": ((0, 0), (("nav", 0, c), ("nav", 1, c)), (2, 3, 2), (ck,) * 3),
    }


def build(clsname, topo, names, ops_per_thread=1):
    """names: op template names, one per thread (or per op for 2x2)."""
    k = env.kind_of(clsname)
    objects, prefix, handles, kinds = topologies(k)[topo]
    nthreads = len(names) if ops_per_thread == 1 else len(names) // ops_per_thread
    threads = []
    idx = 0
    for t in range(nthreads):
        body = []
        for j in range(ops_per_thread):
            nm = names[idx]
            idx += 1
            tmpl = OPS[kinds[t]].get(nm)
            if tmpl is None:
                return None
            op, args = tmpl(t if ops_per_thread == 1 else t * 2 + j)
            body.append(("op", handles[t], op, args))
        threads.append(body)
    objs = objects[:max(1, len({h for h in handles[:nthreads]}))] if topo == "two-objects" else objects
    if topo == "two-objects":
        objs = (0,) * nthreads
    cfg = seq.Config(clsname, initial=(INIT[k],), objects=objs, prefix=prefix, label=clsname)
    pair = "||".join(sorted(names))
    return {"label": "%s/%s/%s" % (clsname, topo, "||".join(names)), "cfg": cfg, "ctx": None, "threads": threads,
            "pair": pair, "topology": topo, "property": PROPERTY, "module": __name__}


def pairs_for(clsname, topo, opnames_by_kind):
    k = env.kind_of(clsname)
    _, _, handles, kinds = topologies(k)[topo]
    a, b = opnames_by_kind[kinds[0]], opnames_by_kind[kinds[1]]
    out = []
    seen = set()
    for x in a:
        for y in b:
            key = (x, y) if kinds[0] != kinds[1] or handles[0] != handles[1] and topo in ("root+child", "root+listchild", "siblings") else tuple(sorted((x, y)))
            if key in seen:
                continue
            seen.add(key)
            p = build(clsname, topo, [x, y])
            if p is not None:
                out.append(p)
    return out


def plan(tier, seed):
    programs1, programs1_noreduce, programs2, programs_multi = [], [], [], []
    topos_all = list(topologies("dict"))
    for fam, (dcls, lcls) in env.JSON_FAMILIES.items():
        for c in (dcls, lcls):
            if fam == "JSON":
                if tier == "quick":
                    for topo in topos_all:
                        if topo in ("same-listchild", "children-of-two-objects"):
                            continue  # thorough tier only
                        programs1 += pairs_for(c, topo, CORE6 if topo in ("same", "two-objects") else CORE5)
                    # a small bound-2 core in the quick tier too: two threads inside the critical section at once need
                    # two preemptions to be SEEN (one to get the second thread in, one to get the first one out again)
                    k_ = env.kind_of(c)
                    w_ = {"dict": ("setitem_diff",), "list": ("append",)}
                    for topo in ("same", "two-objects"):
                        programs2 += pairs_for(c, topo, w_)
                else:
                    full = {"dict": tuple(DICT_OPS), "list": tuple(LIST_OPS)}
                    for topo in topos_all:
                        programs1_noreduce += pairs_for(c, topo, full)
                        if topo in ("same", "two-objects", "root+child"):
                            programs2 += pairs_for(c, topo, CORE3)
                    # both threads CONSTRUCT their own object on a file nobody has opened yet and write through it at once
                    # (two preemptions are needed to see two writers inside the critical section; ~40k schedules each)
                    k_ = env.kind_of(c)
                    cfgn = seq.Config(c, initial=(INIT[k_], INIT[k_]), objects=(0,), label=c)
                    programs2.append({"label": "%s/fresh-objects/newwrite||newwrite" % c, "cfg": cfgn, "ctx": None,
                                      "threads": [[("newwrite", 1, "n0")], [("newwrite", 1, "n1")]], "pair": "newwrite||newwrite",
                                      "topology": "fresh-objects", "property": PROPERTY, "module": __name__,
                                      "final_views": False})
                    for topo in ("same", "two-objects", "root+child"):
                        k = env.kind_of(c)
                        _, _, _, kinds = topologies(k)[topo]
                        core = CORE3
                        for names in itertools.product(core[kinds[0]], core[kinds[1]], core[kinds[2]]):
                            if names[1] <= names[2] or kinds[1] != kinds[2]:
                                p = build(c, topo, list(names))
                                if p:
                                    programs_multi.append(p)
                        for names in itertools.product(core[kinds[0]], core[kinds[0]], core[kinds[1]], core[kinds[1]]):
                            p = build(c, topo, list(names), ops_per_thread=2)
                            if p:
                                programs_multi.append(p)
            else:
                core = CORE3 if tier == "quick" else CORE6
                for topo in ("same", "root+child", "two-objects"):
                    programs1 += pairs_for(c, topo, core)
    tasks = []

    def chunk(progs, n, **kw):
        for i in range(0, len(progs), n):
            part = progs[i:i + n]
            tasks.append(dict(kind="sched", label="%s..+%d" % (part[0]["label"], len(part) - 1), programs=part, **kw))

    chunk(programs1, 6, bound=1, reduction=True)
    chunk(programs1_noreduce, 4, bound=1, reduction=False)
    chunk(programs2, 1, bound=2, reduction=True, max_executions=60000)
    chunk(programs_multi, 3, bound=1, reduction=True)
    return tasks


def run_task(task):
    return schedcheck.run_sched_task(task)


def replay(doc):
    return schedcheck.replay_sched(doc)
