"""C11 Forbidden data never gets in, through any entry point at any depth."""
import sys

from .. import env, model, seq, seqcheck

PROPERTY = "C11"
LEVEL = "exploration"
RULE = ("bounded-exhaustive product: every mutating entry point (constructor data, item/slice assignment, setdefault, "
        "update as mapping / pairs / kwargs, reset, append, extend, insert, +=, attribute assignment for the attr families; "
        "the public API is also listed by reflection and unknown callables are reported) x target {root, nested dict, nested "
        "list} x invalid item {keys: int, float, bool, None, tuple; values: object(), set, complex, custom instance, Mapping "
        "with a non-string key; dotted key for attribute-access families, bare and inside a live collection of a plain family} x placement of the item inside the argument {top, "
        "in a dict, in a list, depth 3} x every concrete class, from the initial state and after one valid operation; the "
        "call must raise a TypeError/ValueError subclass and leave memory and resource unchanged; non-trivial = distinct "
        "(class, entry point, target, item, placement) cases whose reference verdict is 'reject'")
BOUNDS = {"quick": "all classes, all entry points, placements {top, in-dict, in-list, depth-3}, initial state + after one valid op for the JSON families",
          "thorough": "same + after one valid op for every class"}
ASSUMPTIONS = ["Zarr: only non-string keys are forbidden (its classes declare no value validator and support non-JSON codecs)",
               "server backends against fake stores"]

BAD_KEYS = [1, 1.5, True, None, ("#tuple", [1, 2])]
BAD_VALUES = [("#bad", "object"), ("#bad", "set"), ("#bad", "complex"), ("#bad", "instance"), ("#bad", "mapping-badkey")]

KNOWN_MUTATORS = {"setdefault", "update", "reset", "append", "extend", "insert", "pop", "popitem", "clear", "remove", "reverse"}
KNOWN_OTHER = {"get", "keys", "values", "items", "index", "count", "is_base_type", "enable_multithreading",
               "disable_multithreading", "buffer_backend", "backend_is_buffered", "get_buffer_capacity",
               "set_buffer_capacity", "get_current_buffer_size", "registry", "buffered", "filename", "client", "key",
               "collection", "uid", "codec", "group", "name"}


def placements(x):
    return [("top", x), ("in-dict", {"p": x}), ("in-list", [x]), ("depth3", {"p": [{"q": x}]})]


def items_for(clsname):
    fam = env.family_of(clsname)
    out = []
    for k in BAD_KEYS:
        out.append(("key:" + (type(k).__name__ if not isinstance(k, tuple) else "tuple"), ("#dictk", [(k, 0)])))
    if fam != "Zarr":
        for v in BAD_VALUES:
            out.append(("value:" + v[1], v))
    if fam in env.ATTR_FAMILIES:
        out.append(("dotted", {"a.b": 0}))
        # the same dotted key arriving inside a live collection of a family that may legally hold it
        out.append(("dotted-in-foreign-collection", ("#foreign", {"a.b": 0})))
        out.append(("dotted-in-foreign-child", ("#foreign", {"c": {"a.b": 0}})))
    return out


def entry_points(kind_, attr):
    """(name, builder(arg) -> (op, args)) for a target of the given kind"""
    if kind_ == "dict":
        eps = [
            ("setitem", lambda a: ("setitem", ("n", a))),
            ("setdefault", lambda a: ("setdefault", ("n", a))),
            ("update-mapping", lambda a: ("update", ({"n": a}, {}))),
            ("update-pairs", lambda a: ("update", ([("#tuple", ["n", a])], {}))),
            ("update-kwargs", lambda a: ("update", (None, {"n": a}))),
            ("reset", lambda a: ("reset", ({"n": a},))),
        ]
        if attr:
            eps.append(("setattr", lambda a: ("setattr", ("n", a))))
        # positions that already hold a nested container (the in-place merge path)
        eps += [
            ("update-over-dict", lambda a: ("update", ({"dd": a}, {}))),
            ("update-over-list", lambda a: ("update", ({"ll": a}, {}))),
            ("reset-over-dict", lambda a: ("reset", ({"dd": a, "ll": [0]},))),
            ("reset-over-list", lambda a: ("reset", ({"dd": {"y": 0}, "ll": a},))),
            ("setitem-over-dict", lambda a: ("setitem", ("dd", a))),
        ]
        return eps
    return [
        ("setitem", lambda a: ("setitem", (0, a))),
        ("setslice", lambda a: ("setitem", (("#slice", 0, 1, None), [a]))),
        ("append", lambda a: ("append", (a,))),
        ("insert", lambda a: ("insert", (0, a))),
        ("extend", lambda a: ("extend", ([a],))),
        ("iadd", lambda a: ("iadd", ([a],))),
        ("reset", lambda a: ("reset", ([a],))),
        ("reset-over-containers", lambda a: ("reset", ([a, a, 0],))),
        ("setitem-over-list", lambda a: ("setitem", (1, a))),
    ]


def direct_key_cases(attr):
    """invalid keys handed directly to dict entry points"""
    out = []
    for k in BAD_KEYS:
        nm = "key:" + (type(k).__name__ if not isinstance(k, tuple) else "tuple")
        out += [(nm, "setitem-directkey", ("setitem", (k, 0))), (nm, "setdefault-directkey", ("setdefault", (k, 0))),
                (nm, "update-directkey", ("update", (("#dictk", [(k, 0)]), {}))),
                (nm, "update-pairs-directkey", ("update", ([("#tuple", [k, 0])], {}))),
                (nm, "reset-directkey", ("reset", (("#dictk", [(k, 0)]),)))]
    if attr:
        out += [("dotted", "setitem-directkey", ("setitem", ("a.b", 0))), ("dotted", "setdefault-directkey", ("setdefault", ("a.b", 0))),
                ("dotted", "update-kwargs-directkey", ("update", (None, {"a.b": 0}))),
                ("dotted", "update-directkey", ("update", ({"a.b": 0}, {}))),
                ("dotted", "reset-directkey", ("reset", ({"a.b": 0},)))]
    return out


def cases_for(clsname, with_warmup):
    fam = env.family_of(clsname)
    k = env.kind_of(clsname)
    attr = fam in env.ATTR_FAMILIES
    if k == "dict":
        init = {"d": {"x": 0, "dd": {"y": 0}, "ll": [0]}, "l": [{"y": 0}, [0], 0], "v": 1, "dd": {"y": 0}, "ll": [0]}
        prefix = (("nav", 0, "d"), ("nav", 0, "l"))
        targets = [("root", 0, "dict"), ("nested-dict", 1, "dict"), ("nested-list", 2, "list")]
        warm = ("op", 0, "setitem", ("warm", {"y": [1]}))
    else:
        init = [{"x": 0, "dd": {"y": 0}, "ll": [0]}, [{"y": 0}, [0], 0], 1]
        prefix = (("nav", 0, 0), ("nav", 0, 1))
        targets = [("root", 0, "list"), ("nested-dict", 1, "dict"), ("nested-list", 2, "list")]
        warm = ("op", 0, "append", ({"y": [1]},))
    cfg = seq.Config(clsname, initial=(init,), prefix=prefix, label=clsname)
    out = []
    for iname, item in items_for(clsname):
        for pname, arg in placements(item):
            for tname, h, tk in targets:
                if fam == "Zarr" and tk == "list" and pname == "top":
                    pass
                for ename, build in entry_points(tk, attr and tk == "dict"):
                    op, args = build(arg)
                    tag = "%s@%s|%s|%s" % (ename, tname, iname, pname)
                    out.append((tag, cfg, (("op", h, op, args),)))
                    if with_warmup:
                        out.append((tag + "|warm", cfg, (warm, ("op", h, op, args))))
            # constructor
            data = {"n": arg} if k == "dict" else [arg]
            out.append(("constructor|%s|%s" % (iname, pname), cfg, (("construct", 0, data),)))
    for tname, h, tk in targets:
        if tk != "dict":
            continue
        for iname, ename, (op, args) in direct_key_cases(attr):
            if fam == "Zarr" and iname == "dotted":
                continue
            out.append(("%s@%s|%s|direct" % (ename, tname, iname), cfg, (("op", h, op, args),)))
    return out


class Hooks:
    def before_event(self, run, ev, last):
        if last:
            run.scratch["view"] = [model.to_plain(o._to_base()) if hasattr(o, "_to_base") else None for o in run.world.objects]

    def probe(self, run):
        out = []
        ref, world = run.ref, run.world
        for o, obj in enumerate(world.objects):
            got = model.to_plain(obj())
            want = ref.logical_or_empty(ref.obj_res[o])
            if not model.exact_eq(got, want):
                out.append(("memory-changed", "after the rejected call object %d shows %r, expected %r" % (o, got, want)))
            if not model.is_plain(got):
                out.append(("forbidden-in-memory", "collection() contains non-JSON data: %r" % (got,)))
        return out


def make_hooks(name, task):
    return Hooks()


def unclassified_api():
    notes = []
    for c in env.all_classes():
        k = env.cls(c)
        for n in dir(k):
            if n.startswith("_"):
                continue
            if n in KNOWN_MUTATORS or n in KNOWN_OTHER:
                continue
            notes.append("unclassified public attribute %s.%s" % (c, n))
    return notes


def plan(tier, seed):
    tasks = []
    for c in env.all_classes():
        warm = env.family_of(c) in env.JSON_FAMILIES or tier != "quick"
        cases = cases_for(c, warm)
        n = 700
        for i in range(0, len(cases), n):
            tasks.append(seqcheck.make_case_task("%s#%d" % (c, i // n), cases[i:i + n], {"reject", "result", "resource"}, hooks="probe"))
    return tasks


def run_task(task):
    r = seqcheck.run_case_task(sys.modules[__name__], task)
    if task["label"].endswith("JSONDict#0"):
        r["notes"] += unclassified_api()
    return r


def replay(doc):
    return seqcheck.replay_seq(doc)
