"""C03 Operations refine built-in dict/list: same results, same errors, same content."""
import sys

from .. import alpha, env, seq, seqcheck

PROPERTY = "C03"
LEVEL = "model_checking"
RULE = ("BFS over histories of the full MutableMapping/MutableSequence surface (mixins, slices, negative and "
        "out-of-range indices, missing keys, malformed update arguments, comparison operators with plain and "
        "synced operands) on the root and on children at depth 1-2; per operation the return value (plain, exact "
        "leaf types), the exception class and the content/resource afterwards must equal the built-in's; "
        "non-trivial = distinct reached states")
BOUNDS = {"quick": "JSONDict/JSONList depth 2 (full surface at the first level, reduced comparison/slice cross-products after it); other JSON classes depth 1",
          "thorough": "JSONDict/JSONList depth 3 (reduced pool at level 3); all JSON classes depth 2; fakes depth 1"}
ASSUMPTIONS = ["documented deviations only: forbidden data rejected, dict.pop(missing) -> None, key order "
               "unspecified, bytes/tuples stored as lists", "server backends against fake stores"]

OPERANDS = ([], [0], [0, [1, {"a": 0}]], [0, [1, {"a": 0}], {"b": [0]}], [-1], [1], [0, [1, {"a": 0}], {"b": [0]}, 1], "s", 3)


def list_surface(h, full=True):
    ev = alpha.list_reads(h) + alpha.list_mutators(h, alpha.VALUES_CORE)
    for i in (-4, -3, -2, 2, 3, 4):
        ev.append(("op", h, "getitem", (i,)))
        ev.append(("op", h, "setitem", (i, "v")))
        ev.append(("op", h, "delitem", (i,)))
        ev.append(("op", h, "pop", (i,)))
        ev.append(("op", h, "insert", (i, "v")))
    for sl in ((None, None, None), (0, 1, None), (1, None, None), (None, None, 2), (5, 9, None), (None, None, -1)):
        s = ("#slice",) + sl
        ev.append(("op", h, "getitem", (s,)))
        ev.append(("op", h, "delitem", (s,)))
        for rhs in (([], [7], [7, [8]], 5, "ab") if full else ([7, [8]],)):
            ev.append(("op", h, "setitem", (s, rhs)))
    ev.append(("op", h, "getitem", ("x",)))
    ev.append(("op", h, "setitem", ("x", 1)))
    ev.append(("op", h, "delitem", ("x",)))
    for v in (0, 1, [1, {"a": 0}], {"b": [0]}, "zz"):
        ev.append(("op", h, "index", (v,)))
        ev.append(("op", h, "count", (v,)))
        ev.append(("op", h, "contains", (v,)))
        ev.append(("op", h, "remove", (v,)))
    for start in (-1, 0, 1, 9):
        ev.append(("op", h, "index", (0, start)))
        for stop in (-1, 0, 1, 9):
            ev.append(("op", h, "index", (0, start, stop)))
    ev.append(("op", h, "index", ({"b": [0]}, -2, 5)))
    ev.append(("op", h, "index", ([1, {"a": 0}], 0, 0)))
    for op in ("eq", "ne", "lt", "le", "gt", "ge"):
        for o in (OPERANDS if full else OPERANDS[1:4]):
            ev.append(("op", h, op, (o,)))
            if isinstance(o, list):
                ev.append(("op", h, op, (("#synced", o),)))
    ev.append(("op", h, "extend", (5,)))
    ev.append(("op", h, "iadd", (5,)))
    ev.append(("op", h, "extend", ("ab",)))
    ev.append(("op", h, "reset", ({"a": 1},)))
    ev.append(("op", h, "reset", ("ab",)))
    ev.append(("op", h, "reset", (("#tuple", [1, [2]]),)))
    return ev


def dict_surface(h):
    ev = alpha.dict_reads(h) + alpha.dict_mutators(h, alpha.VALUES_CORE)
    for k in ("b", "zz", "", 0):
        ev.append(("op", h, "getitem", (k,)))
        ev.append(("op", h, "delitem", (k,)))
        ev.append(("op", h, "contains", (k,)))
        ev.append(("op", h, "get", (k, "dflt")))
        ev.append(("op", h, "pop", (k, "dflt")))
        ev.append(("op", h, "pop", (k,)))
    ev.append(("op", h, "setitem", ("", 1)))
    ev.append(("op", h, "update", (5, {})))
    ev.append(("op", h, "update", ([("#tuple", ["a"])], {})))
    ev.append(("op", h, "update", ([("#tuple", ["a", 1, 2])], {})))
    ev.append(("op", h, "update", ([1], {})))
    ev.append(("op", h, "update", (None, {})))
    ev.append(("op", h, "update", ({}, {})))
    ev.append(("op", h, "update", ({"k": {"n": 1}}, {"k": [1]})))
    ev.append(("op", h, "reset", ([1],)))
    ev.append(("op", h, "reset", (5,)))
    for o in ({}, {"a": {"b": [0, {"c": 0}]}, "k": 0}, {"b": [0, {"c": 0}]}, {"k": 0}, [], 3, None):
        ev.append(("op", h, "eq", (o,)))
        ev.append(("op", h, "ne", (o,)))
        if isinstance(o, dict):
            ev.append(("op", h, "eq", (("#synced", o),)))
    return ev


def alphabet(ref, task):
    out = []
    full = task.get("level", 0) == 0 or task["extra"].get("full_everywhere")
    for h in ref.attached_handles():
        out += dict_surface(h) if ref.handle_kind(h) == "dict" else list_surface(h, full)
        out += alpha.twin_events(ref, h)
    lvl = task["extra"].get("level3")
    return out


PREFIX = {"dict": (("nav", 0, "a"), ("nav", 1, "b")),
          "list": (("nav", 0, 1), ("nav", 1, 1), ("nav", 0, 2))}


def make_hooks(name, task):
    return None


def plan(tier, seed):
    tasks = []
    for c in env.all_classes():
        fam = env.family_of(c)
        k = env.kind_of(c)
        main = c in ("JSONDict", "JSONList")
        if tier == "quick":
            if fam in env.SERVER_FAMILIES:
                continue
            depth = 2 if main else 1
        else:
            depth = 3 if main else (1 if fam in env.SERVER_FAMILIES else 2)
        cfg = seq.Config(c, initial=(alpha.init_for(k),), prefix=PREFIX[k], label=c)
        kw = dict(label="%s/d%d" % (c, depth), cfg=cfg, alphabet="alphabet", depth=depth,
                  oracles={"result", "resource"})
        n = {1: 1, 2: 8, 3: 48}[depth]
        if depth == 3:
            kw["max_transitions"] = 40000
        tasks += seqcheck.split(n, **kw) if n > 1 else [seqcheck.make_task(**kw)]
    return tasks


def run_task(task):
    return seqcheck.run_seq_task(sys.modules[__name__], task)


def replay(doc):
    return seqcheck.replay_seq(doc)
