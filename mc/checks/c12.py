"""C12 Every JSON value is accepted and round-trips exactly."""
import itertools
import sys

from .. import env, model
from ..env import ABSENT
from ..runner import new_result

PROPERTY = "C12"
LEVEL = "exploration"
RULE = ("two exhaustive families: (structure) ALL JSON values with <= N nodes over scalars {0, 's', None} and keys {'a', ''} "
        "(every nesting of dicts and lists, empty containers and empty keys); (leaves) for every shape with <= 3 nodes and "
        "every leaf position every boundary scalar (0, 1, -1, 2**63, +-2**70, 1.5, 1e308, 5e-324, -0.0, True, False, None, '', "
        "escape/astral/NUL string, 300-char string, a string with a lone surrogate) and every key of {'', 'a', 'a b', non-ASCII} at every key position, plus "
        "depth-8 chains; each value is stored through every mutating entry point (root, nested dict, nested list, "
        "constructor) of every concrete class and read back through a FRESH object on the same resource; it must be equal "
        "with the same JSON type at every leaf - for the buffered classes the leaves family also inside obj.buffered (read back "
        "while buffered and by a fresh object after the exit); (overwrite) for every ordered pair of values that compare == but are "
        "different JSON values (0/False/0.0/-0.0, 1/True/1.0, 2**53 int/float; bare and inside a dict, a list, a list in "
        "a dict), and for pairs of different values of one type, the first is stored and then OVERWRITTEN by the second through every entry point that replaces a "
        "position - the fresh object must read the second; non-trivial = distinct (value, entry point) pairs")
BOUNDS = {"quick": "structure N=4 (JSONDict/JSONList N=5), leaves through 4 entry points per class",
          "thorough": "structure N=5 (JSONDict/JSONList N=6), leaves through every entry point"}
ASSUMPTIONS = ["no random tail beyond the bound (sampling is a different technique)",
               "integers beyond 64 bits are not sent to the MongoDB fake (BSON cannot hold them)",
               "server backends against fake stores"]

STRUCT_SCALARS = (0, "s", None)
STRUCT_KEYS = ("a", "")
BOUNDARY = (0, 1, -1, 2 ** 63, 2 ** 70, -2 ** 70, 1.5, 1e308, 5e-324, -0.0, True, False, None, "",
            "é\U0001F600\"\\\n\x00", "x" * 300, "x\ud800y")
BOUNDARY_KEYS = ("", "a", "a b", "ключ")


def values_with_nodes(n, scalars=STRUCT_SCALARS, keys=STRUCT_KEYS, _memo={}):
    """All JSON values with exactly n nodes."""
    key = (n, scalars, keys)
    if key in _memo:
        return _memo[key]
    out = []
    if n == 1:
        out += list(scalars) + [{}, []]
    else:
        rest = n - 1
        # lists: ordered compositions of `rest` into j >= 1 parts
        for parts in compositions(rest):
            for combo in itertools.product(*[values_with_nodes(p, scalars, keys) for p in parts]):
                out.append(list(combo))
        # dicts: subsets of keys (in fixed order) with children sizes
        for m in range(1, len(keys) + 1):
            for ks in itertools.combinations(keys, m):
                for parts in compositions(rest, m):
                    for combo in itertools.product(*[values_with_nodes(p, scalars, keys) for p in parts]):
                        out.append(dict(zip(ks, combo)))
    _memo[key] = out
    return out


def compositions(total, nparts=None):
    if nparts is None:
        for k in range(1, total + 1):
            yield from compositions(total, k)
        return
    if nparts == 1:
        if total >= 1:
            yield (total,)
        return
    for first in range(1, total - nparts + 2):
        for rest in compositions(total - first, nparts - 1):
            yield (first,) + rest


def structure_values(maxnodes):
    out = []
    for n in range(1, maxnodes + 1):
        out += values_with_nodes(n)
    return out


def leaf_values():
    """shapes with <= 3 nodes; each leaf replaced by every boundary scalar; each key by every boundary key"""
    out = []
    seen = set()
    shapes = []
    for n in range(1, 4):
        shapes += values_with_nodes(n, (0,), ("a",))

    def leaves(v, path=()):
        if isinstance(v, dict):
            for k, x in v.items():
                yield from leaves(x, path + (k,))
        elif isinstance(v, list):
            for i, x in enumerate(v):
                yield from leaves(x, path + (i,))
        else:
            yield path

    def subst(v, path, new):
        if not path:
            return new
        if isinstance(v, dict):
            return {k: (subst(x, path[1:], new) if k == path[0] else x) for k, x in v.items()}
        return [(subst(x, path[1:], new) if i == path[0] else x) for i, x in enumerate(v)]

    def rekey(v, new):
        if isinstance(v, dict):
            return {new: rekey(x, new) for k, x in v.items()}
        if isinstance(v, list):
            return [rekey(x, new) for x in v]
        return v

    for sh in shapes:
        for p in leaves(sh):
            for b in BOUNDARY:
                v = subst(sh, p, b)
                c = model.canon_json(v)
                if c not in seen:
                    seen.add(c)
                    out.append(v)
        for k in BOUNDARY_KEYS:
            v = rekey(sh, k)
            c = model.canon_json(v)
            if c not in seen:
                seen.add(c)
                out.append(v)
    chain = 0
    for i in range(8):
        chain = {"a": chain} if i % 2 else [chain]
    out.append(chain)
    chain = "leaf"
    for i in range(8):
        chain = [chain] if i % 2 else {"": chain}
    out.append(chain)
    return out


def entry_points(kind_, attr):
    """name -> (skeleton, apply(obj, v), extract(plain))"""
    eps = {}
    if kind_ == "dict":
        sk = {"d": {}, "l": [0]}
        eps["setitem"] = (sk, lambda o, v: o.__setitem__("n", v), lambda p: p["n"])
        eps["setdefault"] = (sk, lambda o, v: o.setdefault("n", v), lambda p: p["n"])
        eps["update-mapping"] = (sk, lambda o, v: o.update({"n": v}), lambda p: p["n"])
        eps["update-pairs"] = (sk, lambda o, v: o.update([("n", v)]), lambda p: p["n"])
        eps["update-kwargs"] = (sk, lambda o, v: o.update(n=v), lambda p: p["n"])
        eps["reset"] = (sk, lambda o, v: o.reset({"n": v}), lambda p: p["n"])
        eps["nested-dict-setitem"] = (sk, lambda o, v: o["d"].__setitem__("n", v), lambda p: p["d"]["n"])
        eps["nested-dict-update"] = (sk, lambda o, v: o["d"].update({"n": v}), lambda p: p["d"]["n"])
        eps["nested-list-append"] = (sk, lambda o, v: o["l"].append(v), lambda p: p["l"][-1])
        eps["nested-list-setitem"] = (sk, lambda o, v: o["l"].__setitem__(0, v), lambda p: p["l"][0])
        eps["nested-list-extend"] = (sk, lambda o, v: o["l"].extend([v]), lambda p: p["l"][-1])
        if attr:
            eps["setattr"] = (sk, lambda o, v: setattr(o, "n", v), lambda p: p["n"])
            eps["nested-setattr"] = (sk, lambda o, v: setattr(o.d, "n", v), lambda p: p["d"]["n"])
    else:
        sk = [{"x": 0}, [0]]
        eps["append"] = (sk, lambda o, v: o.append(v), lambda p: p[-1])
        eps["insert"] = (sk, lambda o, v: o.insert(0, v), lambda p: p[0])
        eps["extend"] = (sk, lambda o, v: o.extend([v]), lambda p: p[-1])
        eps["iadd"] = (sk, lambda o, v: o.__iadd__([v]), lambda p: p[-1])
        eps["setitem"] = (sk, lambda o, v: o.__setitem__(1, v), lambda p: p[1])
        eps["setslice"] = (sk, lambda o, v: o.__setitem__(slice(0, 1), [v]), lambda p: p[0])
        eps["reset"] = (sk, lambda o, v: o.reset([v]), lambda p: p[0])
        eps["nested-dict-setitem"] = (sk, lambda o, v: o[0].__setitem__("n", v), lambda p: p[0]["n"])
        eps["nested-list-append"] = (sk, lambda o, v: o[1].append(v), lambda p: p[1][-1])
    return eps


TWIN_SETS = ((0, False, 0.0, -0.0), (1, True, 1.0), (2 ** 53, float(2 ** 53)))
WRAPS = (lambda x: x, lambda x: {"x": x}, lambda x: [x], lambda x: {"x": [0, x]})
# entry points that replace the value at a fixed position (appending ones cannot overwrite)
OVERWRITE_EPS = {"dict": ("setitem", "update-mapping", "update-pairs", "update-kwargs", "reset", "nested-dict-setitem",
                          "nested-dict-update", "nested-list-setitem", "setattr", "nested-setattr"),
                 "list": ("setitem", "setslice", "reset", "nested-dict-setitem")}


# ... and pairs of DIFFERENT values of one type (the merge must not mistake them for unchanged either)
SAME_TYPE_PAIRS = ((1.5, 2.5), (-1.5, 1.5), (1e308, 5e-324), (1, 2), (-1, 1), ("a", "b"), ("", "a"), (True, False), (2 ** 70, 2 ** 70 + 1))


def overwrite_pairs():
    out = []
    for a, b in SAME_TYPE_PAIRS:
        for w in WRAPS:
            out.append((w(a), w(b)))
            out.append((w(b), w(a)))
    for ts in TWIN_SETS:
        for a in ts:
            for b in ts:
                if not model.exact_eq(a, b):
                    for w in WRAPS:
                        out.append((w(a), w(b)))
    return out


LEAF_EPS = {"dict": ("setitem", "update-mapping", "nested-list-append", "constructor"),
            "list": ("append", "extend", "nested-dict-setitem", "constructor")}


def plan(tier, seed):
    tasks = []
    for c in env.all_classes():
        main = c in ("JSONDict", "JSONList")
        n = (5 if main else 4) if tier == "quick" else (6 if main else 5)
        tasks.append({"kind": "c12", "label": "%s/structure<=%d" % (c, n), "clsname": c, "family": "structure", "n": n, "tier": tier})
        tasks.append({"kind": "c12", "label": "%s/leaves" % c, "clsname": c, "family": "leaves", "n": 3, "tier": tier})
        tasks.append({"kind": "c12", "label": "%s/overwrite" % c, "clsname": c, "family": "overwrite", "n": 0, "tier": tier})
    return tasks


def too_big_for_mongo(v):
    if isinstance(v, dict):
        return any(too_big_for_mongo(x) for x in v.values())
    if isinstance(v, list):
        return any(too_big_for_mongo(x) for x in v)
    return isinstance(v, int) and not isinstance(v, bool) and not -(2 ** 63) <= v < 2 ** 63


def run_one(c, epname, ep, v, pre=None, buffered=False):
    """-> None or (kind, detail).  pre = (old,): `old` is stored through the same entry point first.
    buffered=True: the value is stored inside `with obj.buffered:`, read back through the same object while still
    buffered, and then - after the context has exited - through a fresh object."""
    kind_ = env.kind_of(c)
    if epname == "constructor":
        res = env.resource_for(c, ABSENT)
        try:
            data = {"n": v} if kind_ == "dict" else [v]
            try:
                o = res.make(c, data=data)
                # constructor data is persisted by the next write; a content-preserving one
                if kind_ == "dict":
                    o.update({})
                else:
                    o.extend([])
            except Exception as e:  # noqa: BLE001
                return ("rejected", "constructor data %r raised %s: %s" % (data, type(e).__name__, e))
            got = model.to_plain(res.make(c)())
            got = got["n"] if kind_ == "dict" else got[0]
        except Exception as e:  # noqa: BLE001
            return ("unreadable", "reading back %r failed with %s: %s" % (v, type(e).__name__, e))
        finally:
            res.destroy()
    else:
        sk, apply_, extract = ep
        res = env.resource_for(c, sk)
        try:
            o = res.make(c)
            try:
                if buffered:
                    with o.buffered:
                        apply_(o, v)
                        inside = extract(model.to_plain(o()))
                    if not model.exact_eq(inside, v):
                        return ("altered-while-buffered", "%s stored %r inside obj.buffered, the object then reads %r" % (epname, v, inside))
                else:
                    if pre is not None:
                        apply_(o, pre[0])
                    apply_(o, v)
            except Exception as e:  # noqa: BLE001
                return ("rejected", "%s(%r)%s raised %s: %s" % (epname, v, " inside obj.buffered" if buffered else "", type(e).__name__, e))
            try:
                got = extract(model.to_plain(res.make(c)()))
            except Exception as e:  # noqa: BLE001
                return ("unreadable", "reading back %r after %s failed with %s: %s" % (v, epname, type(e).__name__, e))
        finally:
            res.destroy()
    if not model.exact_eq(got, v):
        if pre is not None:
            return ("overwrite-lost", "%s stored %r over %r, a fresh object reads %r" % (epname, v, pre[0], got))
        return ("altered", "%s stored %r, a fresh object reads %r" % (epname, v, got))
    return None


def run_task(task):
    env.lib()
    c = task["clsname"]
    kind_ = env.kind_of(c)
    fam = env.family_of(c)
    attr = fam in env.ATTR_FAMILIES
    eps = entry_points(kind_, attr)
    eps["constructor"] = None
    pres = None
    if task["family"] == "overwrite":
        pairs = overwrite_pairs()
        values = [b for a, b in pairs]
        pres = [(a,) for a, b in pairs]
        names = [n for n in OVERWRITE_EPS[kind_] if n in eps]
    elif task["family"] == "structure":
        values = structure_values(task["n"])
        names = list(eps)
    else:
        values = leaf_values()
        names = list(eps) if task["tier"] != "quick" else [n for n in LEAF_EPS[kind_]]
    res = new_result()
    seen = set()
    for vi, v in enumerate(values):
        if fam == "MongoDB" and too_big_for_mongo(v):
            continue
        for nm in names:
            pre = pres[vi] if pres is not None else None
            bad = run_one(c, nm, eps[nm], v, pre)
            was_buffered = False
            res["evaluations"] += 1
            if bad is None and task["family"] == "leaves" and env.is_buffered_class(c) and nm != "constructor":
                # the buffered classes encode/decode on their own: the same value through the same entry point in
                # buffered mode
                bad = run_one(c, nm, eps[nm], v, None, buffered=True)
                was_buffered = True
                res["evaluations"] += 1
            if bad is not None:
                if len(res["violations"]) < 30:
                    k, d = bad
                    desc = describe(v)
                    res["violations"].append({"signature": "%s|%s|%s|%s|%s" % (PROPERTY, c, nm, desc, k), "detail": d,
                                              "replay": {"engine": "c12", "module": __name__, "clsname": c, "entry": nm,
                                                         "value": repr(v), "pre": repr(pre) if pre is not None else None,
                                                         "buffered": was_buffered}})
    res["nontrivial"] = res["evaluations"]
    res["states"] = len(values)
    res["samples"] = [{"class": c, "family": task["family"], "values": len(values), "entry_points": names,
                       "example_values": [repr(x)[:80] for x in values[len(values) // 2: len(values) // 2 + 3]]}]
    res["extra"] = {"values": len(values)}
    return res


def describe(v):
    if isinstance(v, dict):
        return "dict"
    if isinstance(v, list):
        return "list"
    if isinstance(v, bool):
        return "bool"
    if isinstance(v, int):
        return "bigint" if abs(v) >= 2 ** 63 else "int"
    if isinstance(v, float):
        return "float:" + repr(v)
    if v is None:
        return "null"
    return "str"


def replay(doc):
    env.lib()
    c = doc["clsname"]
    v = eval(doc["value"], {"__builtins__": {}})
    eps = entry_points(env.kind_of(c), env.family_of(c) in env.ATTR_FAMILIES)
    eps["constructor"] = None
    pre = eval(doc["pre"], {"__builtins__": {}}) if doc.get("pre") else None
    bad = run_one(c, doc["entry"], eps[doc["entry"]], v, pre, buffered=bool(doc.get("buffered")))
    return [bad] if bad else []
