"""C10 No operation leaks a lock; no interleaving deadlocks; re-pointing does not break others."""
import errno
import itertools
import sys
import threading

from .. import alpha, env, fault, isolate, model, sched, schedcheck, seq, seqcheck
from ..runner import new_result
from . import c09

PROPERTY = "C10"
LEVEL = "fault_enumeration"
NEEDS_SCHED = True
RULE = ("(a) for every operation kind and every environment call it makes (open, read, write, close, os.replace, os.stat) "
        "and every applicable injected error (EACCES, EIO, ENOSPC, truncated/empty/wrong-type/scalar file content) plus "
        "rejected values: re-run the operation with that one call failing, then every library lock must be free "
        "(instrumented locks, deterministic) and a second thread must complete a write on the same file and on another "
        "collection; (b) all schedules (bound 1) of two-thread programs over every lock-taking path (mutators, clear/reset, "
        "context enter/exit by threads, set_buffer_capacity, construction, filename setter): no deadlock, no lock left "
        "held; (c) BFS over histories with a.filename = other: every later operation on other objects of the old file "
        "must behave as the reference; non-trivial = fault cases whose operation actually raised + distinct schedule "
        "observations + distinct states")
BOUNDS = {"quick": "fault cases for JSONDict/JSONList/BufferedJSONDict/MemoryBufferedJSONDict; 3 families of lock programs at bound 1; re-pointing depth 3",
          "thorough": "fault cases for all 12 JSON classes; lock programs at bound 2 for the core; re-pointing depth 4"}
ASSUMPTIONS = ["errors are injected one at a time at Python-level environment calls made from library code",
               "a thread blocked for 10 s on a freshly created collection is blocked forever"] + c09.ASSUMPTIONS[:1]

INIT = {"dict": {"k": 0, "c": {"x": 0}}, "list": [0, {"x": 0}]}

ERRORS = {
    "open-r": (errno.EACCES, errno.EIO),
    "read": (errno.EIO, "corrupt", "empty", "wrongtype", "scalar"),
    "open-w": (errno.EACCES, errno.ENOSPC),
    "write": (errno.ENOSPC, errno.EIO),
    "close": (errno.EIO,),
    "replace": (errno.EACCES,),
    "stat": (errno.EACCES,),
}


def fault_scenarios(clsname):
    k = env.kind_of(clsname)
    ckey = "c" if k == "dict" else 1
    w = (lambda h, v: ("op", h, "setitem", ("w", v))) if k == "dict" else (lambda h, v: ("op", h, "append", (v,)))
    out = {
        "write": ((), (), (w(0, 1),)),
        "nested-write": ((("nav", 0, ckey),), (), (("op", 1, "setitem", ("z", 1)),)),
        "delitem": ((), (), (("op", 0, "delitem", ("k" if k == "dict" else 0,)),)),
        "reset": ((), (), (("op", 0, "reset", ({"r": 1} if k == "dict" else [1],)),)),
        "clear": ((), (), (("op", 0, "clear", ()),)),
        "nested-clear": ((("nav", 0, ckey),), (), (("op", 1, "clear", ()),)),
        "read": ((), (), (("op", 0, "len", ()),)),
        "rejected-value": ((), (), (("op", 0, "setitem", ("b" if k == "dict" else 0, ("#bad", "object"))),)),
        "reset-rejected-value": ((), (), (("op", 0, "reset", ({"b": ("#bad", "object")} if k == "dict" else [1, ("#bad", "set")],)),)),
        "nested-reset-rejected-value": ((("nav", 0, ckey),), (), (("op", 1, "reset", ({"b": ("#bad", "object")},)),)),
        "update-rejected-value": ((), (), (("op", 0, "update", ({"b": ("#bad", "object")}, {})) if k == "dict" else ("op", 0, "extend", ([1, ("#bad", "set")],)),)),
    }
    if k == "dict":
        out["update"] = ((), (), (("op", 0, "update", ({"u": 1}, {})),))
        out["setdefault"] = ((), (), (("op", 0, "setdefault", ("n", [1])),))
        out["pop"] = ((), (), (("op", 0, "pop", ("k",)),))
    else:
        out["pop"] = ((), (), (("op", 0, "pop", ()),))
        out["extend"] = ((), (), (("op", 0, "extend", ([1, 2],)),))
    if env.is_buffered_class(clsname):
        out["buffered-write"] = ((), (("enter", 0),), (w(0, 1),))
        out["buffered-read"] = ((), (("enter", 0),), (("op", 0, "len", ()),))
        out["buffered-reset"] = ((), (("enter", 0),), (("op", 0, "reset", ({"r": 1} if k == "dict" else [1],)),))
        out["obj-exit-flush"] = ((), (("enter", 0), w(0, 1)), (("exit", 0),))
        out["cls-exit-flush"] = ((), (("enter_cls", None), w(0, 1)), (("exit_cls",),))
        out["forced-flush"] = ((), (("enter_cls", None), w(0, 1)), (("setcap", 0),))
        out["cls-buffered-write"] = ((), (("enter_cls", None),), (w(0, 1),))
    return out


class FaultRunner:
    """Lives in an execution child (scheduler locks installed, unscheduled mode)."""

    def __init__(self, clsname):
        env.lib()
        self.clsname = clsname
        self.k = env.kind_of(clsname)

    def run(self, scn, fail):
        prefix, pre, window = scn
        cfg = seq.Config(self.clsname, initial=(INIT[self.k], INIT[self.k]), objects=(0,), prefix=prefix)
        world = seq.World(cfg)
        for ev in prefix + pre:
            world.apply(ev)
        hooks = fault.Hooks(fail=fail)
        outcomes = []
        hooks.install()
        try:
            hooks.active = True
            for ev in window:
                if ev[0] == "op":
                    # no result conversion inside the fault window (it must not perform I/O of its own)
                    try:
                        model.impl_call(world.handle_objs[ev[1]], ev[2], ev[3], world.mk_synced)
                        out = ("ok", None)
                    except Exception as e:  # noqa: BLE001
                        out = ("exc", e)
                else:
                    out = world.apply(ev)
                outcomes.append(None if out is None else (out[0], type(out[1]).__name__ if out[0] == "exc" else None))
            hooks.active = False
        finally:
            hooks.active = False
            hooks.uninstall()
        result = {"calls": hooks.calls, "outcomes": outcomes, "problems": []}
        if fail is None:
            seq._teardown(world)
            return result
        # leave the contexts the scenario entered (their flush may legitimately raise again)
        for o in world.objects:
            b = getattr(o, "buffered", None)
            while b is not None and b:
                try:
                    b.__exit__(None, None, None)
                except Exception:  # noqa: BLE001
                    pass
        while world.cls_ctx:
            try:
                world.cls_ctx.pop().__exit__(None, None, None)
            except Exception:  # noqa: BLE001
                pass
        held = sched.held_locks()
        if held:
            result["problems"].append(("lock-held", "%d library lock(s) still held after the failed operation: %r" % (len(held), held[:3])))
        done = {}

        def other():
            try:
                o2 = world.resources[0].make(self.clsname)
                if self.k == "dict":
                    o2["second"] = 1
                else:
                    o2.append("second")
                done["same"] = True
                o3 = world.resources[1].make(self.clsname)
                if self.k == "dict":
                    o3["second"] = 1
                else:
                    o3.append("second")
                with o3.buffered if hasattr(o3, "buffered") else _null():
                    len(o3)
                done["other"] = True
            except Exception as e:  # noqa: BLE001
                done["exc"] = "%s: %s" % (type(e).__name__, e)

        t = threading.Thread(target=other, daemon=True)
        t.start()
        t.join(10 if not held else 1.0)
        if t.is_alive():
            result["problems"].append(("blocked", "a second thread could not complete a write (same file done=%r, other collection done=%r)"
                                       % (done.get("same", False), done.get("other", False))))
        elif "exc" in done:
            result["problems"].append(("second-thread-error", "a second thread's operation failed afterwards: %s" % done["exc"]))
        return result


class _null:
    def __enter__(self):
        return self

    def __exit__(self, *a):
        return False


def run_fault_task(task):
    clsname, name, scn = task["clsname"], task["scenario"], task["scn"]
    state = {}

    def on_start():
        state["r"] = FaultRunner(clsname)

    def handler(req):
        r = state["r"].run(scn, req)
        return r, req is not None

    server = isolate.Server(handler, on_start=on_start)
    res = new_result()
    try:
        base = server.call(None)
        calls = base["calls"]
        cases = []
        for i, kind_ in enumerate(calls):
            for err in ERRORS.get(kind_, ()):
                cases.append((i, err))
        if name.endswith("rejected-value"):
            cases = [(10 ** 6, 0)]  # no environment fault: the operation itself must fail
        raised = 0
        for fail in cases:
            r = server.call(fail)
            res["evaluations"] += 1
            if any(o is not None and o[0] == "exc" for o in r["outcomes"]):
                raised += 1
            for kind_, detail in r["problems"]:
                ck = calls[fail[0]] if fail[0] < len(calls) else "none"
                sig = "%s|%s|fault:%s|%s:%s|%s" % (PROPERTY, clsname, name, ck, fail[1], kind_)
                res["violations"].append({"signature": sig, "detail": "%s/%s with call #%d (%s) failing with %r: %s" % (clsname, name, fail[0], ck, fail[1], detail),
                                          "replay": {"engine": "fault", "module": __name__, "part": "a", "clsname": clsname,
                                                     "scenario": name, "fail": list(fail)}})
        res["nontrivial"] = raised
        res["states"] = len(cases)
        res["samples"] = [{"class": clsname, "scenario": name, "env_calls": calls, "fault_cases": len(cases),
                           "cases_where_operation_raised": raised}]
        res["extra"] = {"fault_cases": len(cases)}
    finally:
        server.close()
    return res


# ---- (b) lock-taking paths under all schedules --------------------------------------------------

def lock_bodies(kind_, o, h, other_res):
    w = ("op", h, "setitem", ("t%d" % o, o)) if kind_ == "dict" else ("op", h, "append", (o,))
    return {
        "write": [w],
        "reset": [("op", h, "reset", ({"r": o} if kind_ == "dict" else [o],))],
        "clear": [("op", h, "clear", ())],
        "read": [("op", h, "len", ())],
        "obj-ctx": [("enter", o), w, ("exit", o)],
        "cls-ctx": [("enter_cls", None), w, ("exit_cls",)],
        "cls-ctx-empty": [("enter_cls", None), ("exit_cls",)],
        "leave-cls": [("exit_cls",)],  # leaves the backend-wide context the MAIN thread entered
        "setcap": [("setcap", 0)],
        "new": [("new", 0)],
        "setfilename": [("setfilename", o, other_res)],
    }


def lock_programs(tier):
    progs = []
    classes = ["JSONDict", "BufferedJSONDict", "MemoryBufferedJSONDict"]
    if tier != "quick":
        classes += ["JSONList", "BufferedJSONList", "MemoryBufferedJSONList", "BufferedJSONAttrDict"]
    for c in classes:
        k = env.kind_of(c)
        buffered = env.is_buffered_class(c)
        names = ["write", "reset", "clear", "read", "new", "setfilename"]
        if buffered:
            names += ["obj-ctx", "cls-ctx", "cls-ctx-empty", "leave-cls", "setcap"]
        topos = {"same-object": ((0,), (0, 0)), "two-objects": ((0, 0), (0, 1)), "distinct-files": ((0, 1), (0, 1))}
        for topo, (objects, objs_of_thread) in topos.items():
            for a, b in itertools.combinations_with_replacement(names, 2):
                if tier == "quick" and topo == "distinct-files" and not buffered:
                    continue
                for ctx in ((None, ("cls", None)) if buffered else (None,)):
                    if ctx is not None and ("cls-ctx" in (a, b) or "cls-ctx-empty" in (a, b) or "setfilename" in (a, b)):
                        continue  # re-pointing inside a buffered context is outside the property
                    if ("leave-cls" in (a, b)) != (ctx is not None and "leave-cls" in (a, b)):
                        continue  # leave-cls needs the context entered by main
                    if a == b == "leave-cls":
                        continue
                    ta = lock_bodies(k, objs_of_thread[0], objs_of_thread[0], 2)[a]
                    tb = lock_bodies(k, objs_of_thread[1], objs_of_thread[1], 2)[b]
                    if a == b == "setfilename" and topo == "same-object":
                        continue
                    if "setfilename" in (a, b) and {a, b} & {"obj-ctx", "cls-ctx", "cls-ctx-empty", "leave-cls", "setcap"}:
                        continue  # re-pointing a collection while it is buffered is outside the property
                    cfg = seq.Config(c, initial=(INIT[k],) * 3, objects=objects, label=c)
                    progs.append({"label": "%s/%s/%s/%s||%s" % (c, topo, "ctx" if ctx else "noctx", a, b), "cfg": cfg, "ctx": ctx,
                                  "threads": [ta, tb], "pair": "||".join(sorted((a, b))), "topology": topo,
                                  "property": PROPERTY, "module": __name__, "final_views": False,
                                  "only_kinds": ("deadlock", "livelock", "lock-held", "timeout")})
    return progs


# ---- (c) re-pointing ------------------------------------------------------------------------------

def alphabet_repoint(ref, task):
    ev = []
    if task.get("level", 0) == 0 or not task["extra"].get("done_once"):
        pass
    for o in range(len(ref.obj_res)):
        for r in range(len(ref.disk)):
            if ref.obj_res[o] != r and not any(e for e in ()):
                ev.append(("setfilename", o, r))
    for h in ref.attached_handles():
        if ref.handle_kind(h) == "dict":
            ev += [("op", h, "setitem", ("w%d" % h, h)), ("op", h, "delitem", ("k",)), ("op", h, "call", ()),
                   ("op", h, "reset", ({"r": h},)), ("op", h, "clear", ())]
        else:
            ev += [("op", h, "append", (h,)), ("op", h, "call", ()), ("op", h, "clear", ())]
    if len(ref.obj_res) < 3:
        ev.append(("new", 0))
    return ev


def make_hooks(name, task):
    return None


def plan(tier, seed):
    tasks = []
    fclasses = ("JSONDict", "JSONList", "BufferedJSONDict", "MemoryBufferedJSONDict") if tier == "quick" else env.all_json_classes()
    for c in fclasses:
        for name, scn in fault_scenarios(c).items():
            tasks.append({"kind": "fault-a", "label": "a/%s/%s" % (c, name), "clsname": c, "scenario": name, "scn": scn})
    progs = lock_programs(tier)
    for i in range(0, len(progs), 8):
        part = progs[i:i + 8]
        tasks.append({"kind": "sched", "label": "b/%s..+%d" % (part[0]["label"], len(part) - 1), "programs": part,
                      "bound": 1, "reduction": True})
    if tier != "quick":
        core = [p for p in progs if p["cfg"].clsname in ("BufferedJSONDict", "MemoryBufferedJSONDict")
                and set(p["pair"].split("||")) <= {"write", "reset", "obj-ctx", "setcap"}]
        for p in core:
            tasks.append({"kind": "sched", "label": "b2/%s" % p["label"], "programs": [p], "bound": 2, "reduction": True,
                          "max_executions": 40000})
    for c in (("JSONDict", "BufferedJSONDict", "MemoryBufferedJSONList") if tier == "quick" else env.all_json_classes()):
        k = env.kind_of(c)
        depth = 3 if tier == "quick" else 4
        cfg = seq.Config(c, initial=(INIT[k], INIT[k]), objects=(0, 0), label=c)
        tasks += seqcheck.split(4 if depth == 3 else 16, label="c/%s/d%d" % (c, depth), cfg=cfg, alphabet="alphabet_repoint",
                                depth=depth, oracles={"result", "resource", "ctxerr"})
    return tasks


def _counts(kind_, pair):
    """(b) is about locks only; a KeyError counts when re-pointing is involved (lost lock entry)."""
    if kind_.split(":")[0] in ("deadlock", "livelock", "lock-held", "timeout"):
        return True
    return kind_ == "exception:KeyError" and "setfilename" in pair


def run_task(task):
    if task["kind"] == "fault-a":
        return run_fault_task(task)
    if task["kind"] == "sched":
        r = schedcheck.run_sched_task(task)
        keep = []
        for v in r["violations"]:
            if _counts(v["replay"]["kind"], v["replay"]["program"]["pair"]):
                keep.append(v)
        r["violations"] = keep
        return r
    return seqcheck.run_seq_task(sys.modules[__name__], task)


def replay(doc):
    if doc.get("engine") == "sched":
        out = schedcheck.replay_sched(doc)
        return [x for x in out if _counts(x[0], doc["program"]["pair"])]
    if doc.get("engine") == "fault":
        c = doc["clsname"]
        scn = fault_scenarios(c)[doc["scenario"]]
        state = {}
        r = FaultRunner(c).run(scn, tuple(doc["fail"]))
        return r["problems"]
    return seqcheck.replay_seq(doc)
