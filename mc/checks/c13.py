"""C13 Buffered collections stay consistent under concurrent threads."""
import itertools

from .. import env, schedcheck, seq
from . import c09

PROPERTY = "C13"
LEVEL = "model_checking"
NEEDS_SCHED = True
RULE = ("the main thread enters Class.buffer_backend(capacity); all thread schedules up to a preemption bound of "
        "2-thread programs of buffered mutators on {distinct files, two objects on one file, one object}, also with an "
        "unflushed write already sitting in the buffer when the threads start, and with a thread that shrinks the capacity "
        "(set_buffer_capacity) next to a writer; the main "
        "thread exits the context and observes; oracle = observation (results, exceptions incl. the context exit, "
        "final files, reported buffer size) equals that of some serial order on the implementation; non-trivial = "
        "distinct observations")
BOUNDS = {"quick": "core op pairs x 3 topologies x capacities {default, tiny} x {Buffered, MemoryBuffered} x {dict, list}, bound 1",
          "thorough": "all op pairs, capacities {default, tiny, mid}, bound 1; 3-op core at bound 2; 2 threads x 2 ops on the core"}
ASSUMPTIONS = c09.ASSUMPTIONS + ["reads only on objects no other thread uses (shared-object reads are C14)"]

DICT_OPS = {k: c09.DICT_OPS[k] for k in ("setitem_diff", "setitem_same", "delitem", "update", "setdefault", "reset", "clear")}
LIST_OPS = {k: c09.LIST_OPS[k] for k in ("append", "extend", "insert", "reset", "clear")}
# reads are allowed on objects no other thread is using (topologies with one object per thread)
DICT_OPS["read"] = lambda t: ("len", ())
LIST_OPS["read"] = lambda t: ("len", ())
CORE = {"dict": ("setitem_diff", "update", "reset", "clear", "read"), "list": ("append", "insert", "reset", "clear", "read")}
CORE3 = {"dict": ("setitem_diff", "reset", "clear"), "list": ("append", "reset", "clear")}
OPS = {"dict": DICT_OPS, "list": LIST_OPS}
INIT = {"dict": {"k": 0, "c": {"k": 0}}, "list": [0, [0, 1]]}


def capacities(clsname, tier):
    if env.is_memory_buffered(clsname):
        caps = {"default": None, "tiny": 0, "mid": 1}
    else:
        caps = {"default": None, "tiny": 1, "mid": 40}
    names = ("default", "tiny") if tier == "quick" else ("default", "tiny", "mid")
    return [(n, caps[n]) for n in names]


TOPOS = {
    "distinct-files": ((0, 1), (0, 1)),  # objects -> resources, thread -> handle
    "two-objects-one-file": ((0, 0), (0, 1)),
    "one-object": ((0,), (0, 0)),
    # thread 0 works on file 0; thread 1 on a SECOND object of file 1 whose first object (handle 1) made the unflushed
    # write before the threads started (only used with predirty)
    "second-object-of-dirty-file": ((0, 1, 1), (0, 2)),
}


def build(clsname, topo, names, capname, cap, ops_per_thread=1, predirty=False, preread=False):
    k = env.kind_of(clsname)
    objects, handles = TOPOS[topo]
    nres = max(objects) + 1
    nthreads = len(names) // ops_per_thread
    threads, idx = [], 0
    for t in range(nthreads):
        body = []
        for j in range(ops_per_thread):
            op, args = OPS[k][names[idx]](t if ops_per_thread == 1 else t * 2 + j)
            idx += 1
            body.append(("op", handles[t], op, args))
        threads.append(body)
    cfg = seq.Config(clsname, initial=(INIT[k],) * nres, objects=objects, label=clsname)
    prog = {"label": "%s/%s/cap-%s/%s" % (clsname, topo, capname, "||".join(names)), "cfg": cfg,
            "ctx": ("cls", cap), "threads": threads, "pair": "||".join(sorted(names)),
            "topology": topo + ":" + capname, "property": PROPERTY, "module": __name__}
    if predirty:
        # the LAST thread's object already has an unflushed write in the buffer when the threads start (made by the
        # main thread inside the context): a flush forced by the other thread then has something of its to evict
        h = 1 if topo == "second-object-of-dirty-file" else handles[nthreads - 1]
        if preread:
            # ... or has only been READ so far: its entry sits in the buffer unmodified when the threads start
            prog["setup"] = (("op", h, "len", ()),)
            prog["label"] += "/preread"
            prog["topology"] += ":preread"
        else:
            prog["setup"] = (("op", h, "setitem", ("pre", 1)) if k == "dict" else ("op", h, "append", ("pre",)),)
            prog["label"] += "/predirty"
            prog["topology"] += ":predirty"
    return prog


def plan(tier, seed):
    p1, p2, pm = [], [], []
    for c in ("BufferedJSONDict", "BufferedJSONList", "MemoryBufferedJSONDict", "MemoryBufferedJSONList"):
        k = env.kind_of(c)
        names = CORE[k] if tier == "quick" else tuple(OPS[k])
        for topo in TOPOS:
            if topo == "second-object-of-dirty-file":
                mid = 1 if env.is_memory_buffered(c) else 40
                w = "setitem_diff" if k == "dict" else "append"
                for a, b in (("read", "read"), ("read", w), (w, "read")) + ((("reset", "read"),) if tier != "quick" else ()):
                    p1.append(build(c, topo, [a, b], "mid", mid, predirty=True))
                continue
            for capname, cap in capacities(c, tier):
                for a, b in itertools.combinations_with_replacement(names, 2):
                    if "read" in (a, b) and (topo == "one-object" or a == b):
                        continue  # shared-object reads are C14; read||read is not a writer program
                    p1.append(build(c, topo, [a, b], capname, cap))
                if capname == "tiny" and topo != "one-object":
                    # capacity 'mid': the pre-existing unflushed write fits, the next file that enters the buffer
                    # (serialized: any access; shared-memory: a write) forces the flush - in the middle of the threads
                    mid = 1 if env.is_memory_buffered(c) else 40
                    w = "setitem_diff" if k == "dict" else "append"
                    for a, b in (("read", w), (w, w), ("read", "reset"), (w, "reset")) + \
                            ((("read", "clear"), ("reset", w), ("clear", w)) if tier != "quick" else ()):
                        p1.append(build(c, topo, [a, b], "mid", mid, predirty=True))
                    if not env.is_memory_buffered(c):
                        for a, b in (("read", w), ("read", "reset")):
                            p1.append(build(c, topo, [a, b], "mid", mid, predirty=True, preread=True))
                if tier != "quick":
                    for a, b in itertools.combinations_with_replacement(CORE3[k], 2):
                        p2.append(build(c, topo, [a, b], capname, cap))
                    if capname != "mid":
                        for nm in itertools.product(CORE3[k][:2], repeat=4):
                            pm.append(build(c, topo, list(nm), capname, cap, ops_per_thread=2))
    # a thread that changes the capacity (forcing a flush from outside any operation) next to a writer
    for c in ("BufferedJSONDict", "MemoryBufferedJSONDict") + (("BufferedJSONList", "MemoryBufferedJSONList") if tier != "quick" else ()):
        k = env.kind_of(c)
        w = "setitem_diff" if k == "dict" else "append"
        tiny = 0 if env.is_memory_buffered(c) else 1
        for topo in ("distinct-files", "two-objects-one-file"):
            for wname in (w, "reset"):
                pr = build(c, topo, [w, wname], "default", None, predirty=True)
                # thread 0 does not write: it shrinks the capacity instead
                pr["threads"][0] = [("setcap", tiny)]
                pr["label"] = pr["label"].replace("/%s||" % w, "/setcap||", 1)
                pr["pair"] = "||".join(sorted(["setcap", wname]))
                p1.append(pr)
    tasks = []

    def chunk(progs, n, **kw):
        for i in range(0, len(progs), n):
            part = progs[i:i + n]
            tasks.append(dict(kind="sched", label="%s..+%d" % (part[0]["label"], len(part) - 1), programs=part, **kw))

    chunk(p1, 6, bound=1, reduction=True)
    chunk(p2, 1, bound=2, reduction=True, max_executions=60000)
    chunk(pm, 3, bound=1, reduction=True)
    return tasks


def run_task(task):
    return schedcheck.run_sched_task(task)


def replay(doc):
    return schedcheck.replay_sched(doc)
