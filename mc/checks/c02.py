"""C02 Read-through: every read reflects the backend's current content; children stay attached."""
import sys

from .. import alpha, env, model, seq, seqcheck

PROPERTY = "C02"
LEVEL = "model_checking"
RULE = ("BFS over histories of {outside rewrite of a position to every kind (null, scalar, {}, non-empty dict, "
        "[], shorter list, longer list, removed), read operations on roots and on child handles retained "
        "beforehand, writes through retained children, a second object on the same resource and writes through "
        "it, multi-element mutators rejected half-way (the reference then follows whatever the backend holds)}; each read must return the reference content at call time, a still-attached child must see fresh "
        "data and its write must land in the resource; a child is dropped from the alphabet as soon as its "
        "position stops holding a container of the same kind or is reassigned through its own parent object; "
        "non-trivial = distinct reached states")
BOUNDS = {"quick": "JSONDict/JSONList depth 3; other JSON classes depth 2 (all 7 old kinds x 8 new kinds at depth 2)",
          "thorough": "all JSON classes depth 3; fakes depth 2; JSONDict/JSONList depth 4 (capped per partition)"}
ASSUMPTIONS = ["the outside writer never changes the root's kind, deletes the resource or writes a bare null "
               "(documented conventions outside the property)",
               "outside rewrites always advance the file's mtime (the library's change detection is mtime/size based "
               "only in buffered mode; unbuffered reads always reload)"]

NEWVALS = (None, 7, {}, {"x": 1}, [], [0], [0, 1, 2], "#DEL")
POSITIONS = {"dict": (("a",), ("a", "b"), ("a", "b", 1), ("k",), ("n",), ("e",), ("f",)),
             "list": ((1,), (1, 1), (2,), (0,), (3,), (4,), (5,))}
INIT = {"dict": {"a": {"b": [0, {"c": 0}]}, "k": 0, "n": None, "e": {}, "f": []},
        "list": [0, [1, {"a": 0}], {"b": [0]}, None, {}, []]}
PREFIX = {"dict": (("nav", 0, "a"), ("nav", 1, "b"), ("nav", 2, 1)),
          "list": (("nav", 0, 1), ("nav", 1, 1), ("nav", 0, 2))}


def _exists(content, path):
    node = content
    try:
        for p in path:
            if isinstance(node, dict):
                if not isinstance(p, str):
                    return False
            elif isinstance(node, list):
                if not isinstance(p, int) or not (0 <= p < len(node)):
                    return False
            else:
                return False
            node = node[p]
    except (KeyError, IndexError):
        return False
    return True


def reads_for(ref, h):
    node = ref.node(h)
    ev = [("op", h, "call", ()), ("op", h, "len", ()), ("op", h, "iter", ()), ("op", h, "repr", ())]
    if isinstance(node, dict):
        ev += [("op", h, "items", ()), ("op", h, "keys", ()), ("op", h, "values", ()),
               ("op", h, "eq", (model.ref_value(alpha.INIT_DICT),))]
        for k in ("a", "b", "k"):
            ev.append(("op", h, "getitem", (k,)))
            ev.append(("op", h, "get", (k,)))
        ev.append(("op", h, "contains", ("x",)))
    else:
        ev += [("op", h, "reversed", ()), ("op", h, "eq", ([0],)), ("op", h, "contains", (1,)),
               ("op", h, "getitem", (0,)), ("op", h, "getitem", (1,)), ("op", h, "getitem", (-1,)),
               ("op", h, "count", (0,))]
    return ev


def alphabet(ref, task):
    ev = []
    k = ref.rootkind
    disk = ref.disk[0]
    npos = task["extra"].get("positions_after_first", 7) if task.get("level", 0) >= 1 else 7
    for pos in POSITIONS[k][:npos]:
        if disk is not env.ABSENT and _exists(disk, pos):
            for v in NEWVALS:
                if v == "#DEL" and isinstance(model.get_at(disk, pos[:-1]), list) and False:
                    continue
                ev.append(("ext", 0, pos, v))
            # the same content with type-twins (0 -> False, 0.0 -> -0.0, 1 -> True ...): == to what the object has in
            # memory, yet a different JSON value that every read must show
            cur = model.get_at(disk, pos)
            tw = model.twin(cur)
            if not model.exact_eq(tw, cur):
                ev.append(("ext", 0, pos, tw))
    for h in ref.attached_handles():
        ev += reads_for(ref, h)
        # a write through each handle: must persist
        if ref.handle_kind(h) == "dict":
            ev.append(("op", h, "setitem", ("w", 1)))
        else:
            ev.append(("op", h, "append", ("w",)))
    # a mutator that is rejected half-way (valid entries first, then a forbidden value): whatever it leaves in the
    # backend, later reads must show exactly that - not a half-merged in-memory state
    # (not for Zarr: its classes declare no value validator - an object() is not 'forbidden data' there, it simply cannot
    # be encoded, and what a failed encode leaves in the store is the codec's business)
    for h in (ref.attached_handles()[:2] if env.family_of(task["cfg"].clsname) != "Zarr" else ()):
        bad = ("#bad", "object")
        if ref.handle_kind(h) == "dict":
            ev.append(("opx", h, "reset", ({"a": 5, "k": 6, "zz": bad},)))
            ev.append(("opx", h, "update", ({"k": 6, "b": 5, "zz": bad}, {})))
        else:
            ev.append(("opx", h, "reset", ([7, [8], bad],)))
            ev.append(("opx", h, "extend", ([7, bad],)))
    if len(ref.obj_res) < 2:
        ev.append(("new", 0))
    else:
        # writes through the second object's root: change kinds at the first position
        h2 = [i for i in ref.attached_handles() if ref.handles[i]["obj"] == 1 and not ref.handles[i]["path"]]
        for h in h2:
            pos = POSITIONS[k][0][0]
            for v in (None, {"y": 2}, [5]):
                ev.append(("op", h, "setitem", (pos, v)))
    ev += alpha.nav_events(ref, max_depth=3, max_handles=5)
    return ev


def make_hooks(name, task):
    return None


def plan(tier, seed):
    tasks = []
    for c in env.all_classes():
        fam = env.family_of(c)
        k = env.kind_of(c)
        main = c in ("JSONDict", "JSONList")
        if tier == "quick":
            if fam in env.SERVER_FAMILIES:
                continue
            depth = 3 if main else 2
        else:
            depth = 2 if fam in env.SERVER_FAMILIES else (4 if main else 3)
        cfg = seq.Config(c, initial=(INIT[k],), prefix=PREFIX[k], label=c)
        kw = dict(label="%s/d%d" % (c, depth), cfg=cfg, alphabet="alphabet", depth=depth,
                  oracles={"result", "resource"},
                  extra={"positions_after_first": 3 if tier == "quick" else 4})
        n = {2: 1, 3: 16, 4: 32}[depth]
        if depth >= 4:
            kw["max_transitions"] = 40000
        tasks += seqcheck.split(n, **kw)
    return tasks


def run_task(task):
    return seqcheck.run_seq_task(sys.modules[__name__], task)


def replay(doc):
    return seqcheck.replay_seq(doc)
