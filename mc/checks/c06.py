"""C06 Objects on one file share one buffered state; the flush keeps all their writes."""
import sys

from .. import env, model, seq, seqcheck

PROPERTY = "C06"
LEVEL = "model_checking"
RULE = ("k objects bound to ONE file enter a common buffered state (one backend-wide context, or per-object contexts "
        "entered together); BFS over every assignment of reads / distinguishable writes (root and nested child) to the "
        "objects, then the contexts are left in EVERY order; a read through any object must return the shared reference "
        "content, the file after the common exit must contain every write, every object must show it afterwards; the "
        "checker itself performs no observation inside the context; non-trivial = distinct reached states")
BOUNDS = {"quick": "k=2, <=4 operations, both context kinds, all exit orders, Buffered/MemoryBuffered x dict/list",
          "thorough": "k=2 <=5 operations all 8 classes; k=3 <=4 operations"}
ASSUMPTIONS = ["objects on one file are always in the same buffered state when operations are issued (documented requirement)",
               "default capacity, no outside writer"]

INIT = {"dict": {"k": 0, "c": {"x": 0}}, "list": [0, {"x": 0}]}


def alphabet(ref, task):
    k = len(ref.obj_res)
    maxops = task["extra"]["maxops"]
    entered = [o for o in range(k) if ref.obj_depth[o] > 0]
    ev = []
    if ref.n_exits == 0:
        if ref.cls_depth == 0 and not entered:
            return [("enter_cls", None), ("enter", 0)]
        if ref.cls_depth == 0 and len(entered) < k:
            return [("enter", len(entered))]
        # common state reached: operations, or start leaving
        nops = task["level"] - (1 if ref.cls_depth else k)
        if task["extra"].get("untouched"):
            pass
        if nops < maxops:
            for h in ref.attached_handles():
                hd = ref.handles[h]
                kind_ = ref.handle_kind(h)
                tag = "w%d" % task["level"]
                if not hd["path"]:
                    ev.append(("op", h, "call", ()))
                    if kind_ == "dict":
                        ev.append(("op", h, "setitem", (tag, task["level"])))
                        if task["extra"].get("rich"):
                            ev.append(("op", h, "delitem", ("k",)))
                    else:
                        ev.append(("op", h, "append", (tag,)))
                        if task["extra"].get("rich"):
                            ev.append(("op", h, "delitem", (0,)))
                    ev.append(("op", h, "setpath", (("c",) if kind_ == "dict" else (1,), tag, task["level"])))
                else:
                    ev.append(("op", h, "setitem", (tag, task["level"])))
        if ref.cls_depth:
            ev.append(("exit_cls",))
        else:
            ev += [("exit", o) for o in entered]
        return ev
    if entered:
        return [("exit", o) for o in entered]
    if ref.cls_depth:
        return []
    # everything left: one round of reads through every object
    if not task["extra"].get("post_reads", True):
        return []
    last_was_read = False
    return [("op", h, "call", ()) for h in ref.attached_handles() if not ref.handles[h]["path"]] if task["level"] < task["depth"] else []


class Hooks:
    def probe(self, run):
        out = []
        ref, world = run.ref, run.world
        if any(ref.obj_depth) or ref.cls_depth:
            return out
        for o in range(len(world.objects)):
            try:
                got = model.to_plain(world.objects[o]())
            except Exception as e:  # noqa: BLE001
                out.append(("final-view", "object %d raised %s after the common exit" % (o, type(e).__name__)))
                continue
            want = ref.logical_or_empty(ref.obj_res[o])
            if not model.exact_eq(got, want):
                out.append(("final-view", "object %d shows %r after the common exit, reference %r" % (o, got, want)))
        return out


def make_hooks(name, task):
    return Hooks()


def plan(tier, seed):
    tasks = []
    fams = ("Buffered", "MemoryBuffered") if tier == "quick" else env.BUFFERED_FAMILIES
    for fam in fams:
        for c in env.JSON_FAMILIES[fam]:
            kind_ = env.kind_of(c)
            nav = (lambda o: ("nav", o, "c")) if kind_ == "dict" else (lambda o: ("nav", o, 1))
            variants = [(2, 4 if tier == "quick" else 5)]
            if tier != "quick" and fam in ("Buffered", "MemoryBuffered"):
                variants.append((3, 4))
            variants = [(k, m, ch) for k, m in variants for ch in (False, True)]
            for k, maxops, childhandles in variants:
                # childhandles: every object also retains a nested child obtained BEFORE the contexts
                cfg = seq.Config(c, initial=(INIT[kind_],), objects=(0,) * k,
                                 prefix=tuple(nav(o) for o in range(k)) if childhandles else
                                 tuple(("op", o, "len", ()) for o in range(k)),
                                 label="%s/%dobj%s" % (c, k, "/childhandles" if childhandles else ""))
                depth = k + maxops + k + 1
                kw = dict(label="%s/ops%d" % (cfg.label, maxops), cfg=cfg, alphabet="alphabet", depth=depth,
                          oracles={"result", "resource", "nowrite", "ctxerr"}, hooks="probe",
                          extra={"maxops": maxops, "rich": tier != "quick" or True, "depth": depth})
                kw["extra"]["depth"] = depth
                t = seqcheck.split(2, **kw)
                for x in t:
                    x["depth"] = depth
                tasks += t
    return tasks


def run_task(task):
    task.setdefault("depth", task["extra"].get("depth", 9))
    return seqcheck.run_seq_task(sys.modules[__name__], task)


def replay(doc):
    return seqcheck.replay_seq(doc)
