"""C06 Objects on one file share one buffered state; the flush keeps all their writes."""
import sys

from .. import env, model, seq, seqcheck

PROPERTY = "C06"
LEVEL = "model_checking"
RULE = ("k objects bound to ONE file enter a common buffered state (one backend-wide context, or per-object contexts "
        "entered together); BFS over every assignment of reads / distinguishable writes (root and nested child) to the "
        "objects, then the contexts are left in EVERY order; a read through any object must return the shared reference "
        "content, the file after the common exit must contain every write, every object must show it afterwards; the "
        "checker itself performs no observation inside the context; with two successive sessions also unbuffered operations "
        "between them, one of which adds a marker that the second session may remove again (the buffered bytes return to a "
        "value an earlier session had seen); non-trivial = distinct reached states")
BOUNDS = {"quick": "k=2, <=4 operations, both context kinds, all exit orders, Buffered/MemoryBuffered x dict/list",
          "thorough": "k=2 <=5 operations all 8 classes; k=3 <=4 operations"}
ASSUMPTIONS = ["objects on one file are always in the same buffered state when operations are issued (documented requirement)",
               "default capacity, no outside writer"]

INIT = {"dict": {"k": 0, "c": {"x": 0}}, "list": [0, {"x": 0}]}


def alphabet(ref, task):
    """Phases per session: enter together -> operate -> leave in every order; up to `sessions` sessions."""
    k = len(ref.obj_res)
    maxops = task["extra"]["maxops"]
    sessions = task["extra"].get("sessions", 1)
    entered = [o for o in range(k) if ref.obj_depth[o] > 0]
    active = bool(entered) or ref.cls_depth > 0
    leaving = task["extra"].get("_leaving")
    ev = []
    if not active:
        if ref.session < sessions:
            ev = [("enter_cls", None), ("enter", 0)]
            if task["extra"].get("aba") and task["extra"].get("aba_ctx") == "cls":
                ev = [("enter_cls", None)]
            if ref.session >= 1 and task["extra"].get("aba") and ref.between_ops < 2:
                # between two sessions, unbuffered: the LAST object adds a marker entry (which the next session may
                # remove again: the file content then returns to exactly what an earlier session had seen), anyone reads
                roots = [h for h in ref.attached_handles() if not ref.handles[h]["path"]]
                last = roots[-1]
                node = ref.node(last)
                if ref.rootkind == "dict" and "aba" not in node:
                    ev.append(("op", last, "setitem", ("aba", 1)))
                elif ref.rootkind == "list" and (not node or node[-1] != "aba"):
                    ev.append(("op", last, "append", ("aba",)))
                ev += [("op", h, "call", ()) for h in roots]
            return ev
        if ref.session and task["extra"].get("post_reads", True) and not _last_was_post_read(task):
            return [("op", h, "call", ()) for h in ref.attached_handles() if not ref.handles[h]["path"]]
        return []
    if ref.cls_depth == 0 and len(entered) < k and ref.ops_in_session == 0 and not _someone_left(ref, k):
        return [("enter", len(entered))]
    if _someone_left(ref, k):
        return [("exit", o) for o in entered]
    # common state reached: operations, or start leaving
    if ref.ops_in_session < maxops:
        for h in ref.attached_handles():
            hd = ref.handles[h]
            kind_ = ref.handle_kind(h)
            tag = "w%d" % task["level"]
            if not hd["path"]:
                ev.append(("op", h, "call", ()))
                node = ref.node(h)
                if task["extra"].get("aba"):
                    if kind_ == "dict" and "aba" in node:
                        ev.append(("op", h, "delitem", ("aba",)))
                    elif kind_ == "list" and node and node[-1] == "aba":
                        ev.append(("op", h, "pop", ()))
                lean = task["extra"].get("aba")
                if kind_ == "dict":
                    ev.append(("op", h, "setitem", (tag, task["level"])))
                    if not lean:
                        ev.append(("op", h, "setpath", (("c",), tag, task["level"])))
                    if task["extra"].get("rich"):
                        ev.append(("op", h, "delitem", ("k",)))
                        ev.append(("op", h, "reset", ({tag: task["level"]},)))
                        ev.append(("op", h, "clear", ()))
                else:
                    ev.append(("op", h, "append", (tag,)))
                    if not lean:
                        ev.append(("op", h, "setpath", ((1,), tag, task["level"])))
                    if task["extra"].get("rich"):
                        ev.append(("op", h, "delitem", (0,)))
                        ev.append(("op", h, "reset", ([tag],)))
                        ev.append(("op", h, "clear", ()))
            else:
                ev.append(("op", h, "setitem", (tag, task["level"])))
    if ref.cls_depth:
        ev.append(("exit_cls",))
    else:
        ev += [("exit", o) for o in entered]
    return ev


def _someone_left(ref, k):
    """per-object mode: some object already left this session (then only exits follow)"""
    if ref.cls_depth:
        return False
    entered = sum(1 for o in range(k) if ref.obj_depth[o] > 0)
    return 0 < entered < k and ref.ops_in_session > 0 or (0 < entered < k and ref.n_exits > 0 and _exits_this_session(ref))


def _exits_this_session(ref):
    return getattr(ref, "_c06_exit_marker", None) == ref.session


def _last_was_post_read(task):
    return task["level"] >= task["depth"]


class Hooks:
    def after_event(self, run, ev, outcome, exp, info, last):
        if ev[0] == "exit":
            run.ref._c06_exit_marker = run.ref.session
        return []

    def probe(self, run):
        out = []
        ref, world = run.ref, run.world
        if any(ref.obj_depth) or ref.cls_depth:
            return out
        for o in range(len(world.objects)):
            try:
                got = model.to_plain(world.objects[o]())
            except Exception as e:  # noqa: BLE001
                out.append(("final-view", "object %d raised %s after the common exit" % (o, type(e).__name__)))
                continue
            want = ref.logical_or_empty(ref.obj_res[o])
            if not model.exact_eq(got, want):
                out.append(("final-view", "object %d shows %r after the common exit, reference %r" % (o, got, want)))
        return out


def make_hooks(name, task):
    return Hooks()


def plan(tier, seed):
    tasks = []
    fams = ("Buffered", "MemoryBuffered") if tier == "quick" else env.BUFFERED_FAMILIES
    for fam in fams:
        for c in env.JSON_FAMILIES[fam]:
            kind_ = env.kind_of(c)
            nav = (lambda o: ("nav", o, "c")) if kind_ == "dict" else (lambda o: ("nav", o, 1))
            variants = [(2, 3 if tier == "quick" else 5, 1)]
            if tier != "quick" and fam in ("Buffered", "MemoryBuffered"):
                variants.append((3, 4, 1))
            variants.append((2, 2, 2))  # two successive common sessions, 2 operations each
            if tier != "quick":
                variants.append((2, 3, 2))
            variants = [(k, m, ns, ch, False) for k, m, ns in variants for ch in (False, True)
                        if not (tier == "quick" and ns == 2 and ch and fam != "Buffered")]
            # two sessions with unbuffered operations in between and a marker that can be removed again (lean alphabet)
            variants.append((2, 2, 2, False, True))
            if tier != "quick":
                variants.append((3, 2, 2, False, True))
            for k, maxops, nsess, childhandles, aba in variants:
                # childhandles: every object also retains a nested child obtained BEFORE the contexts
                cfg = seq.Config(c, initial=(INIT[kind_],), objects=(0,) * k,
                                 prefix=tuple(nav(o) for o in range(k)) if childhandles else
                                 tuple(("op", o, "len", ()) for o in range(k)),
                                 label="%s/%dobj%s%s" % (c, k, "/childhandles" if childhandles else "", "/aba" if aba else ""),
                                 options={"track_sessions": True})
                depth = (k + maxops + k) * nsess + 1 + (2 if aba else 0)
                kw = dict(label="%s/ops%d/sess%d" % (cfg.label, maxops, nsess), cfg=cfg, alphabet="alphabet", depth=depth,
                          oracles={"result", "resource", "nowrite", "ctxerr"}, hooks="probe",
                          extra={"maxops": maxops, "rich": nsess == 1, "depth": depth, "sessions": nsess,
                                 "aba": aba, "aba_ctx": "cls" if tier == "quick" else "both"})
                kw["extra"]["depth"] = depth
                t = seqcheck.split(8 if aba else 2, level=2 if aba else 1, **kw)
                for x in t:
                    x["depth"] = depth
                tasks += t
    # relative file names, one object bound by the constructor and one through the `filename` setter: however an object
    # came to be bound to the file, and however the name is spelt, the objects share one buffered state
    for c in (("BufferedJSONDict", "MemoryBufferedJSONDict") if tier == "quick" else
              [x for fam in ("Buffered", "MemoryBuffered") for x in env.JSON_FAMILIES[fam]]):
        kind_ = env.kind_of(c)
        cfg = seq.Config(c, initial=(INIT[kind_], INIT[kind_]), objects=(0, 1), prefix=(("setfilename", 1, 0),),
                         label="%s/2obj/relative-names+setter" % c, options={"track_sessions": True, "relative_names": True})
        depth = (2 + 2 + 2) + 1
        kw = dict(label="%s/ops2/sess1" % cfg.label, cfg=cfg, alphabet="alphabet", depth=depth,
                  oracles={"result", "resource", "nowrite", "ctxerr"}, hooks="probe",
                  extra={"maxops": 2, "rich": False, "depth": depth, "sessions": 1, "aba": False})
        t = seqcheck.split(2, **kw)
        for x in t:
            x["depth"] = depth
        tasks += t
    return tasks


def run_task(task):
    task.setdefault("depth", task["extra"].get("depth", 9))
    return seqcheck.run_seq_task(sys.modules[__name__], task)


def replay(doc):
    return seqcheck.replay_seq(doc)
