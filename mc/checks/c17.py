"""C17 Reading never writes."""
import sys

from .. import alpha, env, model, seq, seqcheck

PROPERTY = "C17"
LEVEL = "model_checking"
RULE = ("BFS over sequences of read operations (item access, get, len, iteration, membership, ==/!= and ordering "
        "comparisons, repr/str, (), keys/values/items, navigation to nested children and reads on them) and LIFO enter/exit "
        "of both buffered context kinds, on EXISTING and on MISSING resources and (JSON files) on a missing file next to the "
        "debris of a first save that was killed just before its atomic replace, for every concrete class incl. the fake-store "
        "backends; after every event the resource must be untouched: same (inode, mtime_ns, size, bytes) for files and no "
        "temp file next to it, same write counters/content for fake stores, a missing resource stays missing; non-trivial = "
        "distinct reached states")
BOUNDS = {"quick": "18 classes x {existing, missing, missing+crash debris}, depth 3", "thorough": "depth 4 (5 for buffered classes with contexts)"}
ASSUMPTIONS = ["fake stores count set/replace_one/dataset writes", "default buffer capacity"]


def alphabet(ref, task):
    ev = []
    for h in ref.attached_handles():
        if ref.handle_kind(h) == "dict":
            ev += [("op", h, "call", ()), ("op", h, "len", ()), ("op", h, "iter", ()), ("op", h, "keys", ()),
                   ("op", h, "values", ()), ("op", h, "items", ()), ("op", h, "repr", ()), ("op", h, "str", ()),
                   ("op", h, "getitem", ("k",)), ("op", h, "getitem", ("zz",)), ("op", h, "get", ("k",)),
                   ("op", h, "get", ("zz", 1)), ("op", h, "contains", ("k",)), ("op", h, "contains", ("zz",)),
                   ("op", h, "eq", ({"k": 0},)), ("op", h, "ne", ({},)), ("op", h, "eq", (("#synced", {"k": 0}),))]
        else:
            ev += [("op", h, "call", ()), ("op", h, "len", ()), ("op", h, "iter", ()), ("op", h, "reversed", ()),
                   ("op", h, "repr", ()), ("op", h, "str", ()), ("op", h, "getitem", (0,)), ("op", h, "getitem", (9,)),
                   ("op", h, "getitem", (("#slice", 0, 2, None),)), ("op", h, "contains", (0,)), ("op", h, "index", (0,)),
                   ("op", h, "index", (99,)), ("op", h, "count", (0,)), ("op", h, "eq", ([0],)), ("op", h, "ne", ([],)),
                   ("op", h, "lt", ([1],)), ("op", h, "le", ([0],)), ("op", h, "gt", ([],)), ("op", h, "ge", ([5],)),
                   ("op", h, "lt", (("#synced", [1]),)), ("op", h, "ge", (("#synced", [0, [0]]),)),
                   ("op", h, "eq", (("#synced", [0]),))]
    ev += alpha.nav_events(ref, max_depth=2, max_handles=3)
    if ref.bufferable:
        if len(ref.ctx_stack) < 2:
            ev += [("enter", 0), ("enter_cls", None)]
        if ref.ctx_stack:
            top = ref.ctx_stack[-1]
            ev.append(("exit", top[1]) if top[0] == "obj" else ("exit_cls",))
    return ev


class Hooks:
    def before_event(self, run, ev, last):
        if last:
            run.scratch["snap"] = [r.snapshot() for r in run.world.resources]
            run.scratch["dirsnap"] = [r.dir_snapshot() if hasattr(r, "debris") else None for r in run.world.resources]

    def after_event(self, run, ev, outcome, exp, info, last):
        if not last:
            return []
        out = []
        for i, r in enumerate(run.world.resources):
            now = r.snapshot()
            if now != run.scratch["snap"][i]:
                out.append(("written", "%r changed resource %d: %r -> %r" % (ev, i, seq._short(run.scratch["snap"][i]) if isinstance(run.scratch["snap"][i], tuple) and len(run.scratch["snap"][i]) == 4 else run.scratch["snap"][i],
                                                                            seq._short(now) if isinstance(now, tuple) and len(now) == 4 else now)))
            if i == 0:
                # synced operands of comparisons are collections too: comparing must not write THEIR resources either
                for j, xr in enumerate(run.world.extra_res):
                    if xr.snapshot() != run.world.extra_snaps[j]:
                        out.append(("operand-written", "%r changed the resource of its synced operand: %r -> %r"
                                    % (ev, seq._short(run.world.extra_snaps[j]) if isinstance(run.world.extra_snaps[j], tuple) and len(run.world.extra_snaps[j]) == 4 else run.world.extra_snaps[j],
                                       seq._short(xr.snapshot()) if isinstance(xr.snapshot(), tuple) and len(xr.snapshot()) == 4 else xr.snapshot())))
            if hasattr(r, "debris"):
                # started from 'missing + debris of a crashed first save': a read may not create, complete, move or
                # remove anything in the directory
                if r.dir_snapshot() != run.scratch["dirsnap"][i]:
                    out.append(("debris-touched", "%r changed the directory around missing resource %d: %r -> %r"
                                % (ev, i, [x[:2] for x in run.scratch["dirsnap"][i]], [x[:2] for x in r.dir_snapshot()])))
            elif r.strays():
                out.append(("temp-file", "%r left temp files %r" % (ev, r.strays())))
        return out

    def probe(self, run):
        # leaving every context after read-only use must not touch anything either
        out = []
        ref, world = run.ref, run.world
        snap = [r.snapshot() for r in world.resources]
        dsnap = [r.dir_snapshot() if hasattr(r, "debris") else None for r in world.resources]
        while ref.ctx_stack:
            top = ref.ctx_stack[-1]
            ev = ("exit", top[1]) if top[0] == "obj" else ("exit_cls",)
            oc = world.apply(ev)
            ref.apply(ev)
            if oc[0] == "exc":
                out.append(("ctxerr", "closing %r raised %s" % (ev, type(oc[1]).__name__)))
        for i, r in enumerate(world.resources):
            if r.snapshot() != snap[i]:
                out.append(("written", "leaving the contexts after read-only use changed resource %d" % i))
            if dsnap[i] is not None and r.dir_snapshot() != dsnap[i]:
                out.append(("debris-touched", "leaving the contexts after read-only use changed the directory around resource %d" % i))
        return out


def make_hooks(name, task):
    return Hooks()


def plan(tier, seed):
    tasks = []
    for c in env.all_classes():
        k = env.kind_of(c)
        buffered = env.is_buffered_class(c)
        init = {"k": 0, "c": {"k": 0}} if k == "dict" else [0, [0]]
        variants = [("existing", init), ("missing", env.ABSENT)]
        if env.family_of(c) in env.JSON_FAMILIES:
            variants.append(("missing+debris", env.Debris(init)))
        for nm, content in variants:
            depth = 3 if tier == "quick" else (5 if buffered else 4)
            cfg = seq.Config(c, initial=(content,), label="%s/%s" % (c, nm))
            tasks.append(seqcheck.make_task("%s/d%d" % (cfg.label, depth), cfg, "alphabet", depth, {"result"}, hooks="probe"))
    return tasks


def run_task(task):
    return seqcheck.run_seq_task(sys.modules[__name__], task)


def replay(doc):
    return seqcheck.replay_seq(doc)
