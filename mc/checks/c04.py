"""C04 Writes through any handle never clobber changes made via other handles."""
import sys

from .. import alpha, env, seq, seqcheck

PROPERTY = "C04"
LEVEL = "model_checking"
RULE = ("BFS over histories of mutators issued alternately through ANY handle of k objects bound to one resource "
        "(roots and children at depth 1-2 retained before the history starts, so they go stale as soon as another "
        "handle writes); no reads are inserted by the checker; after every call the resource must equal one shared "
        "plain structure; handles are dropped once their position no longer holds the same kind of container; "
        "non-trivial = distinct reached states")
BOUNDS = {"quick": "2 objects, JSONDict/JSONList depth 3; all other JSON classes depth 2",
          "thorough": "2 objects depth 4 (JSONDict/JSONList), depth 3 other JSON classes; 3 objects depth 3; fakes depth 2"}
ASSUMPTIONS = ["single thread; server backends against fake stores"]

PREFIX = {"dict": lambda o, base: (("nav", o, "a"), ("nav", base, "b")),
          "list": lambda o, base: (("nav", o, 1), ("nav", base, 1))}


def compact_dict(h):
    return [("op", h, "setitem", ("w%d" % h, h)), ("op", h, "setitem", ("a", {"z": h})),
            ("op", h, "setitem", ("b", [h])), ("op", h, "delitem", ("k",)), ("op", h, "pop", ("b",)),
            ("op", h, "clear", ()), ("op", h, "reset", ({"r": h},)), ("op", h, "update", ({"u": {"v": h}}, {})),
            ("op", h, "setdefault", ("sd", [h])), ("op", h, "popitem", ())]


def compact_list(h):
    return [("op", h, "append", (h,)), ("op", h, "insert", (0, {"i": h})), ("op", h, "setitem", (0, [h])),
            ("op", h, "delitem", (0,)), ("op", h, "pop", ()), ("op", h, "clear", ()),
            ("op", h, "reset", ([h, [h]],)), ("op", h, "extend", ([h, {"e": h}],)), ("op", h, "remove", (0,)),
            ("op", h, "reverse", ()), ("op", h, "iadd", ([h],))]


def alphabet(ref, task):
    ev = []
    for h in ref.attached_handles():
        ev += compact_dict(h) if ref.handle_kind(h) == "dict" else compact_list(h)
        # type-twins of the current content written through one handle: every other (stale) handle holds values
        # that compare == to them and must not write those back
        ev += alpha.twin_events(ref, h)[:1]
    if task["extra"].get("reads"):
        for h in ref.attached_handles():
            ev.append(("op", h, "call", ()))
    return ev


def make_hooks(name, task):
    return None


def prefix_for(kind_, nobj):
    """Every object retains children at depth 1 and 2 (handles: roots first, then children)."""
    ev = []
    base = nobj  # handle index of the first child handle
    for o in range(nobj):
        a, b = PREFIX[kind_](o, base + 2 * o)
        ev += [a, b]
    return tuple(ev)


def plan(tier, seed):
    tasks = []
    for c in env.all_classes():
        fam = env.family_of(c)
        k = env.kind_of(c)
        main = c in ("JSONDict", "JSONList")
        variants = []
        if tier == "quick":
            if fam in env.SERVER_FAMILIES:
                continue
            variants.append((2, 3 if main else 2))
        else:
            variants.append((2, 2 if fam in env.SERVER_FAMILIES else (4 if main else 3)))
            if main:
                variants.append((3, 3))
        for nobj, depth in variants:
            cfg = seq.Config(c, initial=(alpha.init_for(k),), objects=(0,) * nobj, prefix=prefix_for(k, nobj),
                             label="%s/%dobj" % (c, nobj))
            kw = dict(label="%s/%dobj/d%d" % (c, nobj, depth), cfg=cfg, alphabet="alphabet", depth=depth,
                      oracles={"resource"}, extra={"reads": tier != "quick"})
            n = {2: 2, 3: 12, 4: 32}[depth]
            if depth >= 4:
                kw["max_transitions"] = 60000
            tasks += seqcheck.split(n, **kw)
    return tasks


def run_task(task):
    return seqcheck.run_seq_task(sys.modules[__name__], task)


def replay(doc):
    return seqcheck.replay_seq(doc)
