"""Environment layer: library import, scratch files, resources (files and fake stores).

Everything in here is harness-side.  The library under test is imported from /repo's
working tree; nothing is written into /repo (bytecode writing is disabled by ./run).
"""
import copy
import itertools
import json
import os
import shutil
import sys

VERIF = os.path.dirname(os.path.dirname(os.path.abspath(__file__)))
REPO = os.environ.get("VERIF_REPO", "/repo")
LIBDIR = os.path.join(REPO, "synced_collections")

sys.dont_write_bytecode = True


class Absent:
    """Marker: the resource does not exist."""

    def __repr__(self):
        return "ABSENT"

    def __reduce__(self):
        return (_absent, ())


def _absent():
    return ABSENT


ABSENT = Absent()


# --------------------------------------------------------------------------------------
# Library import
# --------------------------------------------------------------------------------------

_lib = None

JSON_FAMILIES = {
    "JSON": ("JSONDict", "JSONList"),
    "JSONAttr": ("JSONAttrDict", "JSONAttrList"),
    "Buffered": ("BufferedJSONDict", "BufferedJSONList"),
    "BufferedAttr": ("BufferedJSONAttrDict", "BufferedJSONAttrList"),
    "MemoryBuffered": ("MemoryBufferedJSONDict", "MemoryBufferedJSONList"),
    "MemoryBufferedAttr": ("MemoryBufferedJSONAttrDict", "MemoryBufferedJSONAttrList"),
}
SERVER_FAMILIES = {
    "Redis": ("RedisDict", "RedisList"),
    "MongoDB": ("MongoDBDict", "MongoDBList"),
    "Zarr": ("ZarrDict", "ZarrList"),
}
ALL_FAMILIES = {**JSON_FAMILIES, **SERVER_FAMILIES}
BUFFERED_FAMILIES = ("Buffered", "BufferedAttr", "MemoryBuffered", "MemoryBufferedAttr")
ATTR_FAMILIES = ("JSONAttr", "BufferedAttr", "MemoryBufferedAttr")


def family_of(clsname):
    for fam, (d, l) in ALL_FAMILIES.items():
        if clsname in (d, l):
            return fam
    raise KeyError(clsname)


def kind_of(clsname):
    for fam, (d, l) in ALL_FAMILIES.items():
        if clsname == d:
            return "dict"
        if clsname == l:
            return "list"
    raise KeyError(clsname)


def is_buffered_class(clsname):
    return family_of(clsname) in BUFFERED_FAMILIES


def is_memory_buffered(clsname):
    return family_of(clsname).startswith("MemoryBuffered")


def all_json_classes():
    out = []
    for d, l in JSON_FAMILIES.values():
        out += [d, l]
    return out


def all_classes():
    out = []
    for d, l in ALL_FAMILIES.values():
        out += [d, l]
    return out


def lib(with_numpy=False):
    """Import the library from /repo (once) and return a namespace of its classes."""
    global _lib
    if _lib is not None:
        return _lib
    if REPO not in sys.path:
        sys.path.insert(0, REPO)
    if with_numpy:
        deps = os.environ.get("VERIF_DEPS") or os.path.join(VERIF, ".deps")
        if os.path.isdir(deps) and deps not in sys.path:
            sys.path.append(deps)
    # stub packages for the server backends, only when the real ones are missing
    import importlib.util

    stubs = os.path.join(VERIF, "stubs")
    for mod in ("bson", "numcodecs"):
        if importlib.util.find_spec(mod) is None and stubs not in sys.path:
            sys.path.append(stubs)
    import synced_collections  # noqa: F401
    from synced_collections import errors, utils, validators
    from synced_collections.backends import (
        collection_json,
        collection_mongodb,
        collection_redis,
        collection_zarr,
    )

    assert os.path.realpath(synced_collections.__file__).startswith(
        os.path.realpath(LIBDIR)
    ), "library not imported from /repo: %s" % synced_collections.__file__

    class NS:
        pass

    ns = NS()
    ns.pkg = synced_collections
    ns.errors = errors
    ns.utils = utils
    ns.validators = validators
    ns.json = collection_json
    ns.classes = {}
    for mod in (collection_json, collection_redis, collection_mongodb, collection_zarr):
        for fam, names in ALL_FAMILIES.items():
            for n in names:
                if hasattr(mod, n):
                    ns.classes[n] = getattr(mod, n)
    ns.default_capacity = {}
    for n, c in ns.classes.items():
        if hasattr(c, "get_buffer_capacity"):
            try:
                ns.default_capacity[n] = c.get_buffer_capacity()
            except Exception:  # noqa: BLE001
                pass
    _lib = ns
    return ns


_SC = None


def is_synced(x):
    """Is x a node of a synced collection?  Decided by the PUBLIC base class, not by private names."""
    global _SC
    if _SC is None:
        mod = sys.modules.get("synced_collections")
        if mod is None:
            return False
        _SC = getattr(mod, "SyncedCollection", None)
    return _SC is not None and isinstance(x, _SC)


def default_capacity(clsname):
    return lib().default_capacity.get(clsname)


def cls(name):
    return lib().classes[name]


# --------------------------------------------------------------------------------------
# Scratch space
# --------------------------------------------------------------------------------------

_scratch = None
_counter = itertools.count()


def scratch_dir():
    global _scratch
    pid = os.getpid()
    if _scratch is None or _scratch[0] != pid:
        base = "/dev/shm" if os.path.isdir("/dev/shm") and os.access("/dev/shm", os.W_OK) else None
        import tempfile

        d = tempfile.mkdtemp(prefix="scverif-%d-" % pid, dir=base)
        _scratch = (pid, d)
        import atexit

        atexit.register(_cleanup, pid, d)
    return _scratch[1]


def _cleanup(pid, d):
    if os.getpid() == pid:
        shutil.rmtree(d, ignore_errors=True)


def cleanup_scratch():
    global _scratch
    if _scratch is not None and _scratch[0] == os.getpid():
        shutil.rmtree(_scratch[1], ignore_errors=True)
        _scratch = None


def fresh_name(stem="r"):
    """A file name never used before in this process tree (pid + counter)."""
    return os.path.join(scratch_dir(), "%s%d_%d.json" % (stem, os.getpid(), next(_counter)))


# strictly increasing mtimes for the outside writer
_mtime_ns = [2_000_000_000 * 10**9]


def _next_mtime():
    _mtime_ns[0] += 10**9
    return _mtime_ns[0]


# ... and strictly decreasing ones, all older than anything a file system hands out today: an outside writer that
# restores a backup with preserved timestamps (cp -p, rsync -t, an archive) or whose clock is behind
_old_mtime_ns = [1_000_000_000 * 10**9]


def _next_old_mtime():
    _old_mtime_ns[0] -= 10**9
    return _old_mtime_ns[0]


# --------------------------------------------------------------------------------------
# Resources
# --------------------------------------------------------------------------------------


def dumps(value):
    return json.dumps(value).encode()


class FileResource:
    """A JSON file on a real file system."""

    kind = "file"

    def __init__(self, initial=ABSENT, name=None):
        self.path = name or fresh_name()
        if initial is not ABSENT:
            with open(self.path, "wb") as f:
                f.write(dumps(initial))

    def read(self):
        """Content read independently of the library (parsed JSON) or ABSENT."""
        try:
            with open(self.path, "rb") as f:
                blob = f.read()
        except FileNotFoundError:
            return ABSENT
        try:
            return json.loads(blob)
        except ValueError:
            return ("#UNPARSABLE", blob[:120])  # never equal to any expected content

    def read_bytes(self):
        try:
            with open(self.path, "rb") as f:
                return f.read()
        except FileNotFoundError:
            return None

    def ext_write(self, value, older=False):
        """Outside writer: rewrite in place, then push mtime strictly beyond all earlier ones (older=True: strictly
        BELOW every mtime seen so far - a restored backup)."""
        with open(self.path, "wb") as f:
            f.write(dumps(value))
        t = _next_old_mtime() if older else _next_mtime()
        os.utime(self.path, ns=(t, t))

    def snapshot(self):
        """(inode, mtime_ns, size, bytes) or None; what C05/C17 compare."""
        try:
            st = os.stat(self.path)
        except FileNotFoundError:
            return None
        return (st.st_ino, st.st_mtime_ns, st.st_size, self.read_bytes())

    def libname(self):
        """The spelling of the file name handed to the library: absolute, or (relative mode) relative to the cwd."""
        return os.path.relpath(self.path) if getattr(self, "relative", False) else self.path

    def make(self, clsname, **kw):
        return cls(clsname)(filename=self.libname(), **kw)

    def make_debris(self, clsname, content):
        """Let a real first save of `content` die (os._exit) at the moment it is about to rename/replace its
        temporary file into place; whatever it had written next to the (still missing) target stays behind."""
        before = set(os.listdir(os.path.dirname(self.path)))
        pid = os.fork()
        if pid == 0:
            try:
                def die(*a, **k):
                    os._exit(0)
                os.replace = os.rename = os.link = die
                o = cls(clsname)(filename=self.path)
                if isinstance(content, dict):
                    o.update(content)
                else:
                    o.extend(content)
            finally:
                os._exit(1)
        os.waitpid(pid, 0)
        if os.path.exists(self.path):
            os.unlink(self.path)  # a save that does not go through a rename: nothing to leave behind
        self.debris = sorted(set(os.listdir(os.path.dirname(self.path))) - before)

    def dir_snapshot(self):
        """The target plus every file that appeared next to it since this resource exists (crash debris, temp
        files): name, inode, mtime, size, bytes of each."""
        d = os.path.dirname(self.path)
        names = set(getattr(self, "debris", ())) | set(self.strays()) | {os.path.basename(self.path)}
        out = []
        for n in sorted(names):
            p = os.path.join(d, n)
            try:
                st = os.stat(p)
                with open(p, "rb") as f:
                    out.append((n, st.st_ino, st.st_mtime_ns, st.st_size, f.read()))
            except FileNotFoundError:
                out.append((n, None))
        return tuple(out)

    def strays(self):
        """Temp files left next to the target."""
        d, n = os.path.split(self.path)
        return [x for x in os.listdir(d) if x.startswith("._") and x.endswith("_" + n)]

    def destroy(self):
        try:
            os.unlink(self.path)
        except FileNotFoundError:
            pass
        for s in list(self.strays()) + list(getattr(self, "debris", ())):
            try:
                os.unlink(os.path.join(os.path.dirname(self.path), s))
            except FileNotFoundError:
                pass


class FakeRedis:
    """Environment model of redis.Redis restricted to what the backend uses."""

    def __init__(self):
        self.store = {}
        self.writes = 0
        self.reads = 0

    def get(self, key):
        self.reads += 1
        return self.store.get(key)

    def set(self, key, value):
        if not isinstance(value, (bytes, str, int, float)):
            raise TypeError("Invalid input of type: %r" % type(value).__name__)
        self.writes += 1
        if isinstance(value, str):
            value = value.encode()
        self.store[key] = value


class RedisResource:
    kind = "redis"

    def __init__(self, initial=ABSENT, name=None):
        self.client = FakeRedis()
        self.key = "k%d" % next(_counter)
        if initial is not ABSENT:
            self.client.store[self.key] = dumps(initial)

    def read(self):
        blob = self.client.store.get(self.key)
        if blob is None:
            return ABSENT
        try:
            return json.loads(blob)
        except ValueError:
            return ("#UNPARSABLE", blob[:120])

    def ext_write(self, value):
        self.client.store[self.key] = dumps(value)

    def snapshot(self):
        return (self.client.writes, self.client.store.get(self.key))

    def make(self, clsname, **kw):
        return cls(clsname)(client=self.client, key=self.key, **kw)

    def strays(self):
        return []

    def destroy(self):
        pass


def _bson_check(doc, top=True):
    import bson

    if isinstance(doc, dict):
        for k, v in doc.items():
            if not isinstance(k, str):
                raise bson.errors.InvalidDocument(
                    "documents must have only string keys, key was %r" % (k,)
                )
            _bson_check(v, False)
    elif isinstance(doc, (list, tuple)):
        for v in doc:
            _bson_check(v, False)
    elif isinstance(doc, bool) or doc is None or isinstance(doc, (str, float, bytes)):
        pass
    elif isinstance(doc, int):
        if not -(2**63) <= doc < 2**63:
            raise OverflowError("MongoDB can only handle up to 8-byte ints")
    else:
        raise bson.errors.InvalidDocument("cannot encode object: %r, of type: %r" % (doc, type(doc)))


class FakeMongoCollection:
    """Environment model of pymongo.collection.Collection: find_one / replace_one(upsert)."""

    def __init__(self):
        self.docs = []
        self.writes = 0

    def _match(self, filt, doc):
        return all(doc.get(k) == v for k, v in filt.items())

    def find_one(self, filt):
        for d in self.docs:
            if self._match(filt, d):
                return copy.deepcopy(d)
        return None

    def replace_one(self, filt, replacement, upsert=False):
        _bson_check(replacement)
        replacement = copy.deepcopy(replacement)
        for i, d in enumerate(self.docs):
            if self._match(filt, d):
                self.docs[i] = replacement
                self.writes += 1
                return
        if upsert:
            self.docs.append(replacement)
            self.writes += 1


class MongoResource:
    kind = "mongo"

    def __init__(self, initial=ABSENT, name=None):
        self.coll = FakeMongoCollection()
        self.uid = {"MongoDBCollection::name": "u%d" % next(_counter)}
        if initial is not ABSENT:
            self.coll.docs.append({**self.uid, "data": copy.deepcopy(initial)})

    def _doc(self):
        for d in self.coll.docs:
            if self.coll._match(self.uid, d):
                return d
        return None

    def read(self):
        d = self._doc()
        return ABSENT if d is None else copy.deepcopy(d["data"])

    def ext_write(self, value):
        d = self._doc()
        if d is None:
            self.coll.docs.append({**self.uid, "data": copy.deepcopy(value)})
        else:
            d["data"] = copy.deepcopy(value)

    def snapshot(self):
        return (self.coll.writes, json.dumps(self.read() if self._doc() else None, sort_keys=True))

    def make(self, clsname, **kw):
        return cls(clsname)(collection=self.coll, uid=dict(self.uid), **kw)

    def strays(self):
        return []

    def destroy(self):
        pass


class FakeZarrDataset:
    def __init__(self, codec):
        self.codec = codec
        self.blob = None
        self.writes = 0

    def __getitem__(self, i):
        if i != 0:
            raise IndexError(i)
        if self.blob is None:
            return None  # fill value of a dataset that was created but never assigned
        return self.codec.decode(self.blob)

    def __setitem__(self, i, value):
        if i != 0:
            raise IndexError(i)
        self.blob = self.codec.encode(value)
        self.writes += 1


class FakeZarrGroup:
    """Environment model of zarr.hierarchy.Group restricted to what the backend uses."""

    def __init__(self):
        self.sets = {}
        self.creates = 0

    def __getitem__(self, name):
        return self.sets[name]

    def require_dataset(self, name, overwrite=False, shape=None, dtype=None, object_codec=None, **kw):
        if name in self.sets and not overwrite:
            return self.sets[name]
        ds = FakeZarrDataset(object_codec)
        self.sets[name] = ds
        self.creates += 1
        return ds


class ZarrResource:
    kind = "zarr"

    def __init__(self, initial=ABSENT, name=None):
        import numcodecs

        self.group = FakeZarrGroup()
        self.name = "n%d" % next(_counter)
        self._codec = numcodecs.JSON()
        if initial is not ABSENT:
            self.ext_write(initial)
            self.group.creates = 0

    def read(self):
        ds = self.group.sets.get(self.name)
        if ds is None or ds.blob is None:
            return ABSENT  # no dataset, or one that was created but never assigned
        return json.loads(ds.blob) if isinstance(ds.blob, (bytes, str)) else ds[0]

    def ext_write(self, value):
        ds = FakeZarrDataset(self._codec)
        ds.blob = self._codec.encode(value)
        self.group.sets[self.name] = ds

    def snapshot(self):
        ds = self.group.sets.get(self.name)
        return (self.group.creates, None if ds is None else (ds.writes, ds.blob))

    def make(self, clsname, **kw):
        return cls(clsname)(group=self.group, name=self.name, **kw)

    def strays(self):
        return []

    def destroy(self):
        pass


class Debris:
    """Initial state 'the file is missing, but a first save of `content` crashed just before its atomic replace':
    whatever the library had put next to the target at that moment is still lying there."""

    def __init__(self, content):
        self.content = content

    def __repr__(self):
        return "Debris(%r)" % (self.content,)

    def __eq__(self, other):
        return isinstance(other, Debris) and other.content == self.content

    def __hash__(self):
        return hash(repr(self))


def resource_for(clsname, initial=ABSENT):
    fam = family_of(clsname)
    if fam in JSON_FAMILIES:
        if isinstance(initial, Debris):
            res = FileResource(ABSENT)
            res.make_debris(clsname, initial.content)
            return res
        return FileResource(initial)
    if fam == "Redis":
        return RedisResource(initial)
    if fam == "MongoDB":
        return MongoResource(initial)
    if fam == "Zarr":
        return ZarrResource(initial)
    raise KeyError(clsname)


_warmed = [False]


def warm_siblings(clsname):
    """Once per process: let every OTHER JSON-file class family do some ordinary work first (load nested content, see
    it grow and change kind through an outside writer, reset, update, mutate nested children).  State that lives on a
    shared base class or is inherited through attribute lookup (memos, registries, lazily resolved types) is then in
    the condition a long-running program would have it in, instead of pristine."""
    if _warmed[0]:
        return
    _warmed[0] = True
    own = family_of(clsname)
    for fam, (dcls, lcls) in JSON_FAMILIES.items():
        if fam == own:
            continue
        for c, init, grown in ((dcls, {"a": {"b": [0, {"c": 0}]}, "k": 0}, {"a": {"b": [0, {"c": 0}, [1], {"d": {}}]}, "k": [{"e": 1}], "n": {"m": [{}]}}),
                               (lcls, [0, [1, {"a": 0}]], [0, [1, {"a": 0}, [2], {"b": {}}], {"c": [{"d": 1}]}, [[3]]])):
            res = FileResource(init)
            try:
                o = res.make(c)
                o()
                res.ext_write(grown)
                o()
                o.reset(init)
                if isinstance(init, dict):
                    o.update(grown)
                    o["a"]["b"].append({"z": [1]})
                    o.setdefault("s", [{"t": 1}])
                else:
                    o.extend(grown)
                    o[1].append({"z": [1]})
                    o.insert(0, [{"t": 1}])
                o()
            finally:
                res.destroy()

