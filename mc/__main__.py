"""CLI: python -m mc check C07 [quick|thorough] | replay <path> | setup | selftest"""
import importlib
import json
import os
import sys


def main(argv):
    if not argv:
        print(__doc__)
        return 2
    cmd = argv[0]
    if cmd == "check":
        prop = argv[1].upper()
        tier = argv[2] if len(argv) > 2 else os.environ.get("VERIF_TIER", "quick")
        if tier.startswith("--tier"):
            tier = argv[3]
        seed = int(os.environ.get("VERIF_SEED", "0") or 0)
        mod = importlib.import_module("mc.checks." + prop.lower())
        if getattr(mod, "NEEDS_SCHED", False):
            from . import sched
            sched.install()
        from . import runner
        return runner.run_check(mod, tier, seed)
    if cmd == "replay":
        path = argv[1]
        with open(path) as f:
            doc = json.load(f)
        mod = importlib.import_module(doc["module"])
        if getattr(mod, "NEEDS_SCHED", False):
            from . import sched
            sched.install()
        out = mod.replay(doc)
        if out:
            print("VIOLATION property=%s replay=%s" % (doc["property"], path))
            for k, d in out[:10]:
                print("  %s: %s" % (k, str(d)[:600]))
            return 1
        print("replay %s: no violation on the current tree" % path)
        return 0
    if cmd == "setup":
        from . import setup
        return setup.main()
    if cmd == "selftest":
        from . import selftest
        return selftest.main(argv[1:])
    print(__doc__)
    return 2


if __name__ == "__main__":
    sys.exit(main(sys.argv[1:]))
