"""Runs a check: fan tasks out over worker processes, classify violations against the
known-findings file, write replay artefacts and the evidence file, print the verdict lines.

Exit codes: 0 property held on everything explored (KNOWN-FINDING lines allowed),
            1 at least one VIOLATION line, 2 explorer error (harness failure).
"""
import fnmatch
import hashlib
import json
import multiprocessing
import os
import sys
import time
import traceback

from . import env

KNOWN_FILE = os.path.join(env.VERIF, "known_findings.json")
NPROC = int(os.environ.get("VERIF_JOBS", "0")) or min(16, os.cpu_count() or 1)
BUDGET_THOROUGH = 600.0  # seconds of wall clock per thorough check (VERIF_BUDGET_S overrides)


class TaskResult(dict):
    """states, transitions, evaluations, violations[], samples[], outcomes{}, capped, nontrivial, notes[]"""


def new_result():
    return {"states": 0, "transitions": 0, "evaluations": 0, "violations": [], "samples": [],
            "outcomes": {}, "capped": False, "nontrivial": 0, "notes": [], "errors": [],
            "max_depth": 0, "extra": {}}


def _run_task(packed):
    modname, task = packed
    t0 = time.time()
    try:
        import importlib

        mod = importlib.import_module(modname)
        res = mod.run_task(task)
        res.setdefault("errors", [])
    except BaseException as e:  # noqa: BLE001
        res = new_result()
        res["errors"].append("task %r failed: %s\n%s" % (task.get("label", task), e, traceback.format_exc()))
    res["label"] = task.get("label", "?")
    res["wall"] = time.time() - t0
    return res


def load_known():
    try:
        with open(KNOWN_FILE) as f:
            return json.load(f)
    except FileNotFoundError:
        return {"findings": []}


def match_known(prop, signature, known):
    for ent in known.get("findings", []):
        if ent.get("property") != prop or ent.get("status") != "open":
            continue
        for pat in ent.get("match", []):
            if fnmatch.fnmatchcase(signature, pat):
                return ent
    return None


def write_replay(prop, viol):
    d = os.path.join(env.VERIF, "replays", prop)
    os.makedirs(d, exist_ok=True)
    sig = viol["signature"]
    name = hashlib.md5(sig.encode()).hexdigest()[:12] + ".json"
    path = os.path.join(d, name)
    doc = dict(viol.get("replay") or {})
    doc["property"] = prop
    doc["signature"] = sig
    doc["detail"] = viol.get("detail")
    with open(path, "w") as f:
        json.dump(doc, f, indent=1, default=repr)
    return path


def run_check(mod, tier, seed):
    """mod: check module with PROPERTY, LEVEL, plan(tier, seed) -> tasks, run_task, finish(agg) (optional)."""
    t0 = time.time()
    prop = mod.PROPERTY
    tasks = mod.plan(tier, seed)
    only = os.environ.get("VERIF_ONLY")  # debugging aid: restrict tasks by label substring
    if only:
        tasks = [t for t in tasks if only in t.get("label", "")]
    # seed only permutes task order
    import random

    rnd = random.Random(seed)
    order = list(range(len(tasks)))
    rnd.shuffle(order)
    tasks = [tasks[i] for i in order]
    nbase = 0
    if tier == "thorough" and not only:
        # the thorough tier contains the quick tier: its tasks run first and are never cut by the budget, the deeper
        # ones follow (so a budgeted thorough run is never weaker than the quick run)
        base = mod.plan("quick", seed)
        if hasattr(mod, "plan"):
            mod.plan(tier, seed)  # plans may keep tier-dependent module state (C19): leave it at the thorough setting
        for t in base:
            if isinstance(t, dict):
                t["label"] = "q:" + str(t.get("label", "?"))
        tasks = base + tasks
        nbase = len(base)
    packed = [(mod.__name__, t) for t in tasks]
    results = []
    skipped = 0
    if NPROC > 1 and len(packed) > 1:
        ctx = multiprocessing.get_context("fork")
        failfast = bool(os.environ.get("VERIF_FAILFAST"))  # evaluation aid (mutation sweeps): stop at the first new violation
        known0 = load_known() if failfast else None
        # wall-clock budget of the thorough tier: tasks are taken in the (seeded) order until the budget is used up; what
        # was not started is reported (capped run, never called exhaustive).  The quick tier has no budget.
        budget = float(os.environ.get("VERIF_BUDGET_S", "0") or 0) or (BUDGET_THOROUGH if tier == "thorough" else 0)
        with ctx.Pool(min(NPROC, len(packed)), maxtasksperchild=1) as pool:
            it = pool.imap_unordered(_run_task, packed, chunksize=1)
            while True:
                try:
                    r = it.next(timeout=5.0)  # wake up regularly: a single deep task may outlast the budget
                except multiprocessing.TimeoutError:
                    r = None
                except StopIteration:
                    break
                if r is not None:
                    results.append(r)
                    if failfast and (r.get("errors") or any(match_known(prop, v["signature"], known0) is None
                                                            for v in r.get("violations", []))):
                        pool.terminate()
                        break
                if budget and time.time() - t0 > budget and len(results) < len(packed) and \
                        sum(1 for x in results if str(x.get("label", "")).startswith("q:")) >= nbase:
                    pool.terminate()
                    skipped = len(packed) - len(results)
                    break
    else:
        for p in packed:
            results.append(_run_task(p))
    results.sort(key=lambda r: r["label"])
    agg = new_result()
    agg["tasks"] = len(results)
    if skipped:
        agg["capped"] = True
        agg["notes"].append("wall-clock budget reached: %d of %d tasks were not completed (the tasks run were explored "
                            "completely unless marked capped themselves)" % (skipped, len(packed)))
        agg["extra"]["tasks_not_completed"] = skipped
    samples = []
    for r in results:
        for k in ("states", "transitions", "evaluations", "nontrivial"):
            agg[k] += r.get(k, 0)
        agg["max_depth"] = max(agg["max_depth"], r.get("max_depth", 0))
        agg["capped"] = agg["capped"] or r.get("capped", False)
        agg["violations"].extend(r.get("violations", []))
        agg["errors"].extend(r.get("errors", []))
        agg["notes"].extend(r.get("notes", []))
        for k, v in r.get("outcomes", {}).items():
            agg["outcomes"][k] = agg["outcomes"].get(k, 0) + v
        for k, v in r.get("extra", {}).items():
            if isinstance(v, (int, float)):
                agg["extra"][k] = agg["extra"].get(k, 0) + v
            elif isinstance(v, list):
                agg["extra"].setdefault(k, [])
                agg["extra"][k] = sorted(set(agg["extra"][k]) | set(v))
        if r.get("samples") and len(samples) < 6:
            samples.append({"task": r["label"], "case": r["samples"][0]})
    agg["samples"] = samples
    if hasattr(mod, "finish"):
        mod.finish(agg, tier, seed)

    # ---- classify
    known = load_known()
    new, knownhits = {}, {}
    for v in agg["violations"]:
        sig = v["signature"]
        ent = match_known(prop, sig, known)
        if ent is not None:
            knownhits.setdefault(ent["id"], (ent, v))
        else:
            if sig not in new or _size(v) < _size(new[sig]):
                new[sig] = v
    dump = os.environ.get("VERIF_DUMP")  # debugging aid: all new signatures + details
    if dump:
        with open(dump, "w") as f:
            for sig, v in sorted(new.items()):
                f.write("%s\t%s\n" % (sig, str(v.get("detail"))[:500]))
    lines = []
    for eid, (ent, v) in sorted(knownhits.items()):
        lines.append("KNOWN-FINDING: property=%s %s" % (prop, ent["what"]))
    viol_lines = []
    unconfirmed = []
    confirm_budget = int(os.environ.get("VERIF_CONFIRM", "4"))
    for n, (sig, v) in enumerate(sorted(new.items(), key=lambda kv: (_size(kv[1]), kv[0]))[:40]):
        path = write_replay(prop, v)
        # replay discipline: the recorded artefact must reproduce the failure (twice) before it is reported
        if n < confirm_budget and hasattr(mod, "replay"):
            ok = _confirm(mod, path)
            if ok is False:
                unconfirmed.append((sig, path))
                continue
        viol_lines.append("VIOLATION property=%s replay=%s" % (prop, path))
        viol_lines.append("  signature: %s" % sig)
        viol_lines.append("  detail: %s" % (str(v.get("detail"))[:600],))
    for sig, path in unconfirmed:
        agg["errors"].append("violation %s was found by the search but its replay %s does not reproduce it "
                             "(non-determinism in the harness?)" % (sig, path))
        new.pop(sig, None)

    wall = time.time() - t0
    ev = build_evidence(mod, agg, tier, seed, wall, len(new), sorted(knownhits))
    evdir = os.path.join(env.VERIF, "evidence")
    if os.environ.get("VERIF_ONLY") or os.environ.get("VERIF_REPO"):
        evdir = "/tmp/scverif-debug-evidence"  # debugging / seeded-change runs never touch the real evidence
    os.makedirs(evdir, exist_ok=True)
    with open(os.path.join(evdir, prop + ".json"), "w") as f:
        json.dump(ev, f, indent=1, default=repr)

    for l in lines:
        print(l)
    for l in viol_lines:
        print(l)
    summary = ("%s %s: tasks=%d states=%d transitions=%d evaluations=%d violations=%d known=%d "
               "capped=%s wall=%.1fs" % (prop, tier, agg["tasks"], agg["states"], agg["transitions"],
                                          agg["evaluations"], len(new), len(knownhits), agg["capped"], wall))
    print(summary)
    if agg["errors"]:
        for e in agg["errors"][:2]:
            print("EXPLORER-ERROR: " + e, file=sys.stderr)
        return 2 if not new else 1
    vac = agg.get("vacuous")
    if vac:
        print("EXPLORER-ERROR: vacuous exploration: %s" % vac, file=sys.stderr)
        return 2
    return 1 if new else 0


def _confirm(mod, path):
    """Run `./run replay <path>` twice in fresh processes; True if both report the violation,
    False if neither does, None if the outcome is mixed or the replay could not run."""
    import subprocess

    res = []
    for _ in range(2):
        try:
            p = subprocess.run([os.path.join(env.VERIF, "run"), "replay", path], capture_output=True, text=True,
                               timeout=600, env=os.environ.copy())
        except Exception:  # noqa: BLE001
            return None
        if p.returncode == 1 and "VIOLATION" in p.stdout:
            res.append(True)
        elif p.returncode == 0:
            res.append(False)
        else:
            return None
    if all(res):
        return True
    if not any(res):
        return False
    return None


def _size(v):
    rp = v.get("replay") or {}
    return len(rp.get("history", rp.get("schedule", []))) if isinstance(rp, dict) else 0


def build_evidence(mod, agg, tier, seed, wall, nviol, known_ids):
    level = mod.LEVEL
    cov = {
        "evaluations": int(agg["evaluations"] or agg["transitions"]),
        "distinct_nontrivial": int(agg["nontrivial"]),
        "rule": getattr(mod, "RULE", ""),
        "samples": agg["samples"] or [{"note": "no sample recorded"}],
        "exhaustive": not agg["capped"],
        "tasks": agg["tasks"],
        "max_depth": agg["max_depth"],
        "outcomes": {str(k): v for k, v in sorted(agg["outcomes"].items(), key=lambda kv: str(kv[0]))},
        "known_findings_reproduced": known_ids,
        "bounds": getattr(mod, "BOUNDS", {}).get(tier, ""),
    }
    if level == "model_checking":
        cov["states"] = int(agg["states"])
        cov["transitions"] = int(agg["transitions"])
        cov["traces_validated_against_impl"] = int(agg["transitions"])
    for k, v in agg.get("extra", {}).items():
        cov[k] = v
    if agg["notes"]:
        cov["notes"] = sorted(set(agg["notes"]))[:20]
    return {
        "property_id": mod.PROPERTY,
        "tier": tier,
        "seed": int(seed),
        "level": level,
        "coverage": cov,
        "assumptions": list(getattr(mod, "ASSUMPTIONS", [])),
        "wall_s": round(wall, 2),
        "violations": int(nviol),
    }
