"""Generic structural hash of the implementation state reachable from a world's handles.

Not a hand-picked field list: walks every object's __dict__ and the mutable, non-callable
class attributes along its MRO, numbering object identities by first visit so aliasing is
part of the state.  A refactor that adds a field makes the hash finer, never coarser.
"""
import hashlib
import os
import re
import types

from .env import is_synced as _is_synced

_LOCK_RE = re.compile(r"owner=(\d+) count=(\d+)")
_SKIP_CLASS_ATTRS = {"__dict__", "__weakref__", "__doc__", "__module__", "__abstractmethods__",
                     "_abc_impl", "__parameters__", "__orig_bases__", "__annotations__",
                     "__slots__", "__hash__", "__qualname__", "__firstlineno__", "__static_attributes__"}


class Canon:
    def __init__(self, world):
        self.world = world
        self.ids = {}
        self.paths = {}
        for i, r in enumerate(world.resources):
            p = getattr(r, "path", None)
            if p is not None:
                self.paths[p] = i
                if getattr(r, "relative", False):
                    self.paths[r.libname()] = i
        self.own = set()
        for o in list(world.objects) + [h for h in getattr(world, "handle_objs", []) if h is not None]:
            self.own.add(id(o))
        self.harness = {}
        for i, r in enumerate(world.resources):
            for v in vars(r).values():
                if hasattr(v, "__dict__") and type(v).__module__.startswith("mc."):
                    self.harness[id(v)] = i
            self.harness[id(r)] = i
        self.classes_done = set()

    def meta_state(self, filename, meta):
        try:
            st = os.stat(filename)
            cur = (st.st_size, st.st_mtime_ns)
        except OSError:
            cur = None
        if meta == cur:
            return "meta-current"
        return "meta-stale" if meta is not None else "meta-none"

    def walk(self, o, ctx_file=None):
        t = type(o)
        if t is int and o in self.own:
            return ("id-of-own-object",)  # a raw id() of one of this world's collections (id-keyed bookkeeping)
        if o is None or t in (bool, int, float, bytes):
            return (t.__name__, o)
        if t is str:
            if o in self.paths:
                return ("path", self.paths[o])
            if o.startswith("/dev/shm/scverif") or "/scverif-" in o:
                return ("path", "foreign")
            return ("str", o)
        oid = id(o)
        if oid in self.harness:
            return ("resource", self.harness[oid])
        if oid in self.ids:
            return ("ref", self.ids[oid])
        if isinstance(o, (types.FunctionType, types.BuiltinFunctionType)):
            return ("fn", getattr(o, "__qualname__", repr(o)))
        if isinstance(o, types.MethodType):
            return ("bm", o.__func__.__qualname__, self.walk(o.__self__))
        if isinstance(o, type):
            return ("cls", o.__qualname__)
        if isinstance(o, (property, classmethod, staticmethod, types.ModuleType)):
            return ("static",)
        n = self.ids[oid] = len(self.ids)
        if t is dict or isinstance(o, dict):
            items = []
            for k, v in o.items():
                if isinstance(k, str) and ("/scverif-" in k) and k not in self.paths:
                    continue  # entry of a file that is not part of this world (inert)
                if isinstance(k, int) and not isinstance(k, bool) and _is_synced(v) \
                        and id(v) not in self.own and k == id(v):
                    continue  # id()-keyed entry of an object from another history
                if isinstance(k, int) and not isinstance(k, bool) and _is_synced(v) and k == id(v):
                    kk = ("idkey",)
                else:
                    kk = self.walk(k)
                if k == "metadata" and ctx_file is not None:
                    items.append((kk, self.meta_state(ctx_file, v)))
                else:
                    cf = k if (isinstance(k, str) and k in self.paths) else ctx_file
                    items.append((kk, self.walk(v, cf)))
            return ("dict", n, tuple(items))
        if t in (list, tuple) or isinstance(o, (list, tuple)):
            if ctx_file is not None and isinstance(o, tuple) and len(o) == 2 and all(type(x) is int for x in o) \
                    and max(o) > 10 ** 17:
                # recorded (size, mtime_ns) of the file - in either order, plain or named tuple, whatever the field is called
                return ("filemeta", self.meta_state(ctx_file, (min(o), max(o))))
            return (t.__name__, n, tuple(self.walk(v, ctx_file) for v in o))
        if t in (set, frozenset):
            return (t.__name__, n, tuple(sorted(repr(self.walk(v)) for v in o)))
        if "RLock" in t.__name__ or "lock" in t.__name__.lower():
            r = repr(o)  # only for lock objects: repr() of a synced collection would reload it
            m = _LOCK_RE.search(r)
            if m:
                return ("lock", m.group(1) != "0", int(m.group(2)))
            st = getattr(o, "_canon_state", None)
            if st is not None:
                return ("lock",) + tuple(st())
            return ("lock", "locked" in r and "unlocked" not in r)
        d = getattr(o, "__dict__", None)
        out = [("type", t.__qualname__)]
        if d is not None:
            for k in sorted(d):
                out.append((k, self.walk(d[k], ctx_file)))
        slots = []
        for c in t.__mro__:
            s = c.__dict__.get("__slots__", ())
            slots += [s] if isinstance(s, str) else list(s)
        for k in sorted(set(slots)):
            if hasattr(o, k):
                out.append((k, self.walk(getattr(o, k), ctx_file)))
        if d is None and not slots:
            if t.__module__.startswith("synced_collections"):
                out.append(("opaque", t.__qualname__))
            else:
                out.append(("repr", re.sub(r"0x[0-9a-f]+", "0x", repr(o))))
        return ("obj", n, tuple(out))

    def class_state(self, c):
        out = []
        for base in c.__mro__:
            if base in self.classes_done or base.__module__ in ("builtins", "abc", "collections.abc", "typing"):
                continue
            self.classes_done.add(base)
            for k in sorted(vars(base)):
                if k in _SKIP_CLASS_ATTRS:
                    continue
                v = vars(base)[k]
                if isinstance(v, (types.FunctionType, classmethod, staticmethod, property, type,
                                  types.BuiltinFunctionType, types.MethodDescriptorType,
                                  types.WrapperDescriptorType, types.GetSetDescriptorType,
                                  types.MemberDescriptorType)):
                    continue
                if k == "registry":
                    continue
                out.append((base.__qualname__, k, self.walk(v)))
        return tuple(out)

    def digest(self):
        parts = []
        w = self.world
        for i, o in enumerate(w.objects):
            parts.append(("object", i, self.walk(o)))
        for i, h in enumerate(w.handle_objs):
            parts.append(("handle", i, None if h is None else self.walk(h)))
        for o in w.objects:
            parts.append(("class", self.class_state(type(o))))
        for i, r in enumerate(w.resources):
            parts.append(("res", i, repr(r.read()), len(r.strays())))
        return hashlib.md5(repr(parts).encode()).hexdigest()


def digest(world):
    return Canon(world).digest()
