"""Regenerate /verif/MANIFEST.json from the check modules that exist (python -m mc.manifest)."""
import importlib
import json
import os

from . import env

TEXT = {
    "C01": ("Every history of public mutators (root and retained children to depth 3) up to the stated depth is executed on the real class for all 18 concrete classes; after each call the resource, read independently, must equal a built-in dict/list reference; histories include an outside writer between mutators, saves that fail once, and rewrites with equal-but-different (type-twin) and same-type-different values.", "Server backends run against in-process fake stores; bounded depth and argument alphabet."),
    "C02": ("All histories (bounded depth) of outside rewrites of any position to any JSON kind, reads through roots and retained children, writes through children and through a second object are executed on the real classes; every read must return the reference content at call time, also after a mutator that was rejected half-way (the reference then follows the backend).", "Outside writer advances mtime; root-kind changes and resource deletion excluded (documented conventions)."),
    "C03": ("The whole MutableMapping/MutableSequence surface incl. mixins, slices, out-of-range indices, malformed arguments and all six comparison operators is composed into histories up to the stated depth; each call's result, exception class and resulting content must equal the built-in's.", "Only the four documented deviations are allowed; bounded depth/alphabet."),
    "C04": ("All histories (bounded depth) of mutators issued alternately through any handle (k objects on one resource, each with stale retained children) are executed; the resource must equal one shared plain structure after every step.", "Single thread; bounded depth."),
    "C05": ("All well-nested words of per-object and backend-wide buffered contexts interleaved with mutators/reads are executed on the 8 buffered classes; results must equal the unbuffered reference, the file must stay untouched (inode/mtime/size/bytes) until the outermost exit, and hold the final content there.", "Default capacity for the no-write oracle; one object per file."),
    "C06": ("All assignments of reads/writes to k objects on one file under a common buffered state, with every exit order, are executed; reads must see the shared content and the file after the common exit must contain every write.", "Objects are always in the same buffered state when operations are issued (documented requirement)."),
    "C07": ("All assignments of {modified, read-only, untouched} x {outside change before/after first buffered access, never} to n files, every access order, context kind and a policy-independent forced flush are executed; errors must name exactly the conflicting files, outside content must survive, clean files must be written and the buffer must be pristine afterwards; plus every bounded sequence of reads/writes/outside changes and forced flushes FOLLOWED by more operations, judged by 'an outside change or a write disappears only after an error naming the file'.", "Outside rewrites change (size, mtime) - larger mtimes with any size, or smaller mtimes with the same size; files may not exist when they enter the buffer (the library's detection mechanism); writes always change content."),
    "C08": ("Every crash point (each executed library line of the save window, every prefix of every write(), every unflushed write) of every listed save/flush history is exercised by killing a forked child there; each file must be byte-identical to a complete version and open normally.", "Process death on a POSIX file system, not power loss."),
    "C09": ("All schedules up to the preemption bound of every 2-thread program over all pairs of public mutators and 8 handle topologies run on the real classes under a controlled scheduler; every observation must equal that of a serial order.", "Preemption granularity = source line of library code; bounded threads/ops/preemptions."),
    "C10": ("Every environment call of every operation kind is failed with every applicable error and afterwards all locks must be free and a second thread must complete; all schedules of lock-taking paths must be deadlock-free; re-pointing histories must not disturb other objects.", "One injected fault at a time; bounded programs."),
    "C11": ("Every (entry point x target position x invalid item kind x placement inside the argument to depth 3) case is executed for every concrete class; forbidden data must raise TypeError/ValueError and reach neither memory nor backend.", "Entry points enumerated by reflection from the public API; Zarr: only non-string keys are forbidden."),
    "C12": ("All JSON values up to a node bound (structure) and all boundary scalars/keys at every leaf position (leaves) are stored through every entry point of every class and read back through a fresh object with exact leaf types.", "Exhaustive up to the size bound only; no random tail (sampling is outside this technique)."),
    "C13": ("All schedules up to the preemption bound of 2-thread programs of buffered mutators inside a backend-wide context for 3 topologies x capacities x both strategies; observation must equal a serial order, no buffer error, size back to 0.", "Same as C09."),
    "C14": ("All schedules up to the preemption bound of reader||writer programs (same object / two objects on one file, unbuffered and buffered) must be equivalent to a serial position of the read.", "Same as C09; live container results observed by kind."),
    "C15": ("All histories (bounded depth) over several files with context nesting, capacity overrides and set_buffer_capacity are executed; after every call the reported size must be within capacity, consistent with the observable dirty files, and 0 outside contexts; capacities must be restored; plus every environment call of ten flushing/buffered windows failing once with every applicable errno, after which the accounting must be back at rest.", "Exact recomputation uses the entry table when introspectable."),
    "C16": ("Every container-taking entry point with every nested argument shape and every container-returning operation is executed; afterwards every reachable container of the user-held argument/result is mutated and the collection and resource must not change.", "Bounded shapes (depth 3)."),
    "C17": ("All sequences (bounded depth) of read operations and context enter/exit on existing and missing resources for every class; the resource (and the resource of a synced comparison operand) must not be written, created or re-stamped; a missing file next to the debris of a killed first save must stay missing and the debris untouched.", "Observation = stat/bytes of the file, write counters of the fake stores, audit of write-mode opens."),
    "C18": ("After every event of mixed histories the tree is walked and every container must be of the root's family; for every key of a large pool (protected names, method names, dunders, non-identifiers) attribute and item programs must coincide on fresh objects; part (a) runs after every other class family has done ordinary work in the process and also stores live collections of other families as values.", "Key pool enumerated from the classes themselves."),
    "C19": ("Every warm-up history (bounded length) over a pool of diversely-typed values is executed in a forked child of a pristine parent and each probe outcome is compared with a fresh-interpreter baseline.", "numpy installed privately for the harness; pool of types is finite."),
}
TECH = {
    "SEQ": "explicit-state model checking of the implementation (BFS over operation histories, state merging) against a reference model",
    "SCHED": "stateless model checking of thread schedules (preemption-bounded DFS under a controlled scheduler), serial-order oracle",
    "FAULT": "exhaustive crash-point / fault enumeration on the real write path (forked children, os._exit, injected errno)",
    "ENUM": "bounded-exhaustive enumeration of inputs/programs executed on the implementation against a reference model",
}
ENGINE = {"C01": "SEQ", "C02": "SEQ", "C03": "SEQ", "C04": "SEQ", "C05": "SEQ", "C06": "SEQ", "C07": "SEQ", "C08": "FAULT",
          "C09": "SCHED", "C10": "FAULT", "C11": "ENUM", "C12": "ENUM", "C13": "SCHED", "C14": "SCHED", "C15": "SEQ",
          "C16": "ENUM", "C17": "SEQ", "C18": "SEQ", "C19": "ENUM"}


def main():
    props = [json.loads(l) for l in open(os.path.join(env.VERIF, "properties.jsonl"))]
    built = []
    for p in props:
        try:
            importlib.import_module("mc.checks." + p["id"].lower())
            built.append(p["id"])
        except ModuleNotFoundError:
            pass
    man = {
        "version": 1,
        "setup_cmd": "./run setup",
        "hooks": {"guard": "SYNCED_COLLECTIONS_VERIF",
                  "enable": "no source hooks: all instrumentation is applied from outside (sys.settrace, lock-factory interposition before import, builtins.open/os.* wrappers, fork/os._exit fault injection, stub modules on the harness sys.path)",
                  "baseline_off_cmd": "cd /repo && /venv/bin/python -m pytest -ra -q -p no:cacheprovider --timeout=900 --continue-on-collection-errors",
                  "source_commits": [], "add_only": True},
        "engines": [
            {"name": "SEQ", "path": "mc/seq.py", "serves_properties": [p for p in built if ENGINE[p] == "SEQ"],
             "kind_free_text": "explicit-state BFS over operation histories of the real classes in lock-step with a plain dict/list reference; fresh-world replay, generic structural state hashing, isolated execution children"},
            {"name": "SCHED", "path": "mc/sched.py", "serves_properties": [p for p in built if ENGINE[p] == "SCHED"] + (["C10"] if "C10" in built else []),
             "kind_free_text": "baton scheduler over real threads (sys.settrace line events in library code = scheduling points, interposed re-entrant locks), CHESS-style preemption-bounded DFS, serial-order oracle on the implementation"},
            {"name": "FAULT", "path": "mc/fault.py", "serves_properties": [p for p in built if ENGINE[p] == "FAULT"],
             "kind_free_text": "crash-point enumeration (fork + os._exit at every line / write prefix) and errno injection at every environment call"},
            {"name": "ENUM", "path": "mc/seqcheck.py", "serves_properties": [p for p in built if ENGINE[p] == "ENUM"],
             "kind_free_text": "bounded-exhaustive input/program enumeration executed on the real classes"},
        ],
        "checks": [], "not_applicable": [],
        "notes": "All checks explore the real implementation imported from /repo's working tree; see DESIGN.md.",
    }
    for pid in built:
        mod = importlib.import_module("mc.checks." + pid.lower())
        text, note = TEXT[pid]
        man["checks"].append({
            "property_id": pid, "quick_cmd": "./run check %s quick" % pid, "thorough_cmd": "./run check %s thorough" % pid,
            "evidence_file": "/verif/evidence/%s.json" % pid, "replay_cmd_template": "./run replay {path}",
            "engine": ENGINE[pid],
            "level_claimed": {"category": mod.LEVEL, "text": text, "design_ref": "DESIGN.md section 6 " + pid},
            "level_note": note, "technique": TECH[ENGINE[pid]]})
    for p in props:
        if p["id"] not in built:
            man["not_applicable"].append({"property_id": p["id"], "reason": "check not built yet (planned, see DESIGN.md section 6)"})
    with open(os.path.join(env.VERIF, "MANIFEST.json"), "w") as f:
        json.dump(man, f, indent=1)
    print("manifest: %d checks, %d not yet built" % (len(man["checks"]), len(man["not_applicable"])))


if __name__ == "__main__":
    main()
