"""Engine SEQ: explicit-state search over operation histories, implementation and reference
model run in lock-step.

A *history* is a tuple of events.  A state is the history reaching it (live objects do not
copy): `execute(cfg, history)` builds a FRESH world, replays the history on the real
implementation and on the reference, checks the oracles on the LAST event (earlier events
were checked when their prefix was explored), computes the canonical digest and then runs
destructive end-of-history probes.

Events
  ("op", h, name, args)      operation through handle h
  ("nav", h, key)            retain a handle to the child found by navigation
  ("new", r)                 another root object bound to resource r (+ its root handle)
  ("ext", r, path, value)    outside writer sets `value` at `path` of resource r
  ("enter", o) / ("exit", o) per-object buffered context of object o
  ("enter_cls", cap) / ("exit_cls",)   backend-wide context (cap may be None)
  ("setcap", n)              Class.set_buffer_capacity(n)
"""
import collections
import copy
import os
import sys
import traceback

from . import canon as canon_mod
from . import env, model
from .env import ABSENT
from .model import Expect, check_result, exact_eq, get_at, kind, path_ok, ref_apply


class Config:
    """One task: class, resources with initial contents, initial objects, options."""

    def __init__(self, clsname, initial=(ABSENT,), objects=(0,), prefix=(), write_concern=False,
                 label=None, options=None):
        self.options = dict(options or {})
        self.clsname = clsname
        self.initial = tuple(initial)
        self.objects = tuple(objects)  # resource index of each initial object
        self.prefix = tuple(prefix)  # events replayed before every history (not counted)
        self.write_concern = write_concern
        self.label = label or clsname

    def describe(self):
        return {"class": self.clsname, "initial": [repr(i) for i in self.initial],
                "objects": list(self.objects), "prefix": [repr(e) for e in self.prefix],
                "write_concern": self.write_concern}


def _has_dot(v):
    if isinstance(v, dict):
        return any((isinstance(k, str) and "." in k) or _has_dot(x) for k, x in v.items())
    if isinstance(v, list):
        return any(_has_dot(x) for x in v)
    return False


class Violation(Exception):
    def __init__(self, kind_, detail):
        super().__init__("%s: %s" % (kind_, detail))
        self.kind = kind_
        self.detail = detail


# --------------------------------------------------------------------------------------
# Reference world
# --------------------------------------------------------------------------------------


class Ref:
    def __init__(self, cfg):
        self.cfg = cfg
        self.rootkind = env.kind_of(cfg.clsname)
        self.attr = env.family_of(cfg.clsname) in env.ATTR_FAMILIES
        self.bufferable = env.is_buffered_class(cfg.clsname)
        self.disk = [ABSENT if isinstance(i, env.Debris) else copy.deepcopy(i) for i in cfg.initial]
        n = len(self.disk)
        self.buf = [None] * n  # buffered logical content, or None
        self.in_buf = [False] * n
        self.changed_w = [False] * n  # a mutator ran on the buffered copy
        self.ext_after = [False] * n  # outside write after the file entered the buffer
        self.disk_known = [True] * n  # False while a flush policy we do not model may have written
        self.touched = [False] * n  # a mutator was ever attempted (ABSENT may have become empty)
        self.obj_res = []
        self.obj_depth = []
        self.cls_depth = 0
        self.cap_stack = []
        self.ctx_stack = []  # ("obj", o) / ("cls",) in entry order
        self.n_exits = 0
        self.n_ops = 0
        self.n_setcap = 0
        self.track_sessions = bool(getattr(cfg, "options", {}).get("track_sessions"))
        self.session = 0  # number of buffered sessions started (a session = contexts active .. all left)
        self.ops_in_session = 0
        self.between_ops = 0  # operations issued while no context is active, since the last session ended
        self.cap_default = True
        self.handles = []  # dict(obj, path, kinds, attached)
        for r in cfg.objects:
            self.add_object(r)

    # -- structure
    def add_object(self, r):
        self.obj_res.append(r)
        self.obj_depth.append(0)
        self.handles.append({"obj": len(self.obj_res) - 1, "path": (), "kinds": (), "attached": True})
        return len(self.obj_res) - 1

    def empty(self):
        return {} if self.rootkind == "dict" else []

    def obj_buffered(self, o):
        return self.bufferable and (self.obj_depth[o] > 0 or self.cls_depth > 0)

    def res_buffered(self, r):
        return any(self.obj_buffered(o) for o, rr in enumerate(self.obj_res) if rr == r)

    def res_all_buffered(self, r):
        objs = [o for o, rr in enumerate(self.obj_res) if rr == r]
        return bool(objs) and all(self.obj_buffered(o) for o in objs)

    def logical(self, r):
        if self.in_buf[r]:
            return self.buf[r]
        return self.disk[r]

    def logical_or_empty(self, r):
        c = self.logical(r)
        return self.empty() if c is ABSENT else c

    def node(self, h):
        hd = self.handles[h]
        return get_at(self.logical_or_empty(self.obj_res[hd["obj"]]), hd["path"])

    def handle_kind(self, h):
        return kind(self.node(h))

    def attached_handles(self):
        return [i for i, h in enumerate(self.handles) if h["attached"]]

    def revalidate(self):
        for h in self.handles:
            if h["attached"] and h["path"]:
                c = self.logical(self.obj_res[h["obj"]])
                if c is ABSENT or not path_ok(c, h["path"], h["kinds"]):
                    h["attached"] = False

    def detach_under(self, o, prefix, strict=True):
        n = len(prefix)
        for h in self.handles:
            if h["obj"] == o and h["attached"] and h["path"][:n] == tuple(prefix):
                if len(h["path"]) > n or not strict:
                    h["attached"] = False

    # -- buffering
    def _enter_buffer(self, r):
        if not self.in_buf[r]:
            self.in_buf[r] = True
            c = self.disk[r]
            self.buf[r] = self.empty() if c is ABSENT else copy.deepcopy(c)
            self.changed_w[r] = False
            self.ext_after[r] = False

    def _content_changed(self, r):
        d = self.disk[r]
        d = self.empty() if d is ABSENT else d
        return self.changed_w[r] and not exact_eq(self.buf[r], d)

    def flush_expect(self, resources):
        """Resources leaving the buffer together -> set of conflicting resource indices."""
        conflicts = set()
        for r in resources:
            if not self.in_buf[r]:
                continue
            if self.changed_w[r] and self.ext_after[r] and self.disk_known[r]:
                conflicts.add(r)
            elif self.changed_w[r]:
                if self.disk_known[r] or not self.ext_after[r]:
                    self.disk[r] = self.buf[r]
                    self.disk_known[r] = True
            self.in_buf[r] = False
            self.buf[r] = None
            self.changed_w[r] = False
            self.ext_after[r] = False
        return conflicts

    # -- events
    def apply(self, ev):
        """Apply an event; returns (Expect or None, info dict)."""
        t = ev[0]
        info = {}
        if self.track_sessions:
            active = self.cls_depth > 0 or any(self.obj_depth)
            if t in ("enter", "enter_cls") and not active:
                self.session += 1
                self.ops_in_session = 0
                self.between_ops = 0
            elif t == "op" and active:
                self.ops_in_session += 1
            elif t == "op":
                self.between_ops += 1
        if t == "op":
            _, h, op, args = ev
            hd = self.handles[h]
            o = hd["obj"]
            r = self.obj_res[o]
            mut = model.is_mutator(op)
            buffered = self.obj_buffered(o)
            if buffered:
                self._enter_buffer(r)
            if self.logical(r) is ABSENT:
                if mut:
                    # first mutator on a missing resource materialises it
                    self.disk[r] = self.empty()
                    info["materialised"] = True
                    node = get_at(self.disk[r], hd["path"])
                else:
                    node = self.empty()
            else:
                node = get_at(self.logical(r), hd["path"])
            before = copy.deepcopy(node) if op == "popitem" else None
            exp = ref_apply(node, op, args, dotted_forbidden=self.attr)
            info["node_before"] = before
            if mut:
                self.touched[r] = True
                if buffered:
                    self.changed_w[r] = True
                if not self.cap_default and buffered:
                    self.disk_known[r] = False
                if exp.mode in ("ok", "popitem"):
                    self._detach_for(o, hd["path"], op, args, node)
            self.revalidate()
            return exp, info
        if t == "fop":
            # the save of this mutator fails (ENOSPC at the atomic replace): it must raise OSError and the resource keeps
            # its content; positions the operation would have reassigned through this object are beyond the guarantee
            # for retained children (the in-memory tree was modified before the save failed)
            _, h, op, args = ev
            hd = self.handles[h]
            o = hd["obj"]
            r = self.obj_res[o]
            assert not self.obj_buffered(o) and self.logical(r) is not ABSENT
            node = copy.deepcopy(get_at(self.logical(r), hd["path"]))
            exp = ref_apply(node, op, args, dotted_forbidden=self.attr)
            if exp.mode in ("ok", "popitem"):
                self._detach_for(o, hd["path"], op, args, node)
            self.revalidate()
            return Expect("exc", exc=OSError), info
        if t == "opx":
            # a multi-element mutator whose argument is valid up to a point and then forbidden: it must raise a
            # TypeError/ValueError; how much of the valid part was applied before is unspecified by any property,
            # so the reference FOLLOWS the resource (execute() copies what the backend holds afterwards) - what
            # is specified is that every later read shows exactly that (unbuffered objects only)
            _, h, op, args = ev
            hd = self.handles[h]
            r = self.obj_res[hd["obj"]]
            assert not self.obj_buffered(hd["obj"]), "opx is defined for unbuffered objects"
            self.touched[r] = True
            info["follow_disk"] = r
            # positions below the handle may have been reassigned through this very object before the rejection:
            # children retained from it are beyond their stated guarantee from here on
            self.detach_under(hd["obj"], hd["path"])
            return Expect("reject"), info
        if t == "nav":
            _, h, key = ev
            hd = self.handles[h]
            o = hd["obj"]
            r = self.obj_res[o]
            if self.obj_buffered(o):
                self._enter_buffer(r)
            node = get_at(self.logical_or_empty(r), hd["path"])
            child = node[key]
            assert isinstance(child, (dict, list)), "nav to a non-container"
            if isinstance(node, list) and key < 0:
                key += len(node)
            self.handles.append({"obj": o, "path": hd["path"] + (key,), "kinds": hd["kinds"] + (kind(child),),
                                 "attached": True})
            return None, info
        if t == "new":
            self.add_object(ev[1])
            return None, info
        if t == "ext":
            _, r, path, value = ev[:4]  # an optional 5th field ("older") only affects the timestamp the writer leaves
            c = copy.deepcopy(self.disk[r]) if self.disk[r] is not ABSENT else None
            if not path:
                c = copy.deepcopy(value)
            elif value == "#DEL":
                del get_at(c, path[:-1])[path[-1]]
            else:
                get_at(c, path[:-1])[path[-1]] = copy.deepcopy(value)
            self.disk[r] = c
            self.disk_known[r] = True
            if self.in_buf[r]:
                self.ext_after[r] = True
            self.revalidate()
            return None, info
        if t == "construct":
            data = model.ref_value(ev[2])
            bad = model._find_bad(data) or (self.attr and _has_dot(data))
            return (Expect("reject") if bad else Expect("ok", None)), info
        if t == "setfilename":
            o, r = ev[1], ev[2]
            self.detach_under(o, ())
            self.obj_res[o] = r
            return Expect("ok", None), info
        if t == "enter":
            self.obj_depth[ev[1]] += 1
            self.ctx_stack.append(("obj", ev[1]))
            return None, info
        if t == "exit":
            o = ev[1]
            self.obj_depth[o] -= 1
            self.n_exits += 1
            if ("obj", o) in self.ctx_stack:
                i = len(self.ctx_stack) - 1 - self.ctx_stack[::-1].index(("obj", o))
                del self.ctx_stack[i]
            conflicts = set()
            if not self.obj_buffered(o):
                r = self.obj_res[o]
                if not self.res_buffered(r):
                    conflicts = self.flush_expect([r])
                else:
                    # another object on r is still buffered: file state unspecified until all left
                    if self.in_buf[r] and self.changed_w[r]:
                        self.disk_known[r] = False
            info["conflicts"] = conflicts
            self.revalidate()
            if conflicts:
                return Expect("exc", exc="MetadataError"), info
            return Expect("ok", None), info
        if t == "enter_cls":
            self.cls_depth += 1
            self.ctx_stack.append(("cls",))
            self.cap_stack.append(ev[1])
            if ev[1] is not None and ev[1] < 10 ** 5:  # a huge capacity cannot force a flush here
                self.cap_default = False
            return None, info
        if t == "exit_cls":
            self.cls_depth -= 1
            self.n_exits += 1
            self.cap_stack.pop()
            if ("cls",) in self.ctx_stack:
                i = len(self.ctx_stack) - 1 - self.ctx_stack[::-1].index(("cls",))
                del self.ctx_stack[i]
            leaving = [r for r in range(len(self.disk)) if not self.res_buffered(r)]
            for r in range(len(self.disk)):
                if r not in leaving and self.in_buf[r] and self.changed_w[r]:
                    objs = [o for o, rr in enumerate(self.obj_res) if rr == r]
                    if any(not self.obj_buffered(o) for o in objs):
                        self.disk_known[r] = False
            conflicts = self.flush_expect(leaving)
            info["conflicts"] = conflicts
            self.revalidate()
            if conflicts:
                return Expect("exc", exc="BufferedError"), info
            return Expect("ok", None), info
        if t == "setcap":
            self.cap_default = False
            self.n_setcap += 1
            if ev[1] == 0 and (self.cls_depth or any(self.obj_depth)):
                # capacity 0 forces EVERY modified file out, whatever the eviction policy
                conflicts = self.flush_expect([r for r in range(len(self.disk)) if self.in_buf[r]])
                info["conflicts"] = conflicts
                self.revalidate()
                if conflicts:
                    return Expect("exc", exc="BufferedError"), info
                return Expect("ok", None), info
            for r in range(len(self.disk)):
                if self.in_buf[r] and self.changed_w[r]:
                    self.disk_known[r] = False
            return None, info
        raise ValueError(ev)

    def _detach_for(self, o, path, op, args, node_after):
        a = [model.ref_value(x) for x in args]
        if op == "setpath":
            self.detach_under(o, tuple(path) + tuple(a[0]) + (a[1],), strict=False)
            return
        if op in ("clear", "reset", "reverse", "insert", "remove", "iadd", "extend", "append"):
            if op in ("append", "extend", "iadd"):
                return
            self.detach_under(o, path)
            return
        if isinstance(node_after, list):
            if op in ("delitem", "pop"):
                self.detach_under(o, path)
            elif op == "setitem":
                if isinstance(a[0], slice):
                    self.detach_under(o, path)
                else:
                    i = a[0] if a[0] >= 0 else a[0] + len(node_after)
                    self.detach_under(o, path + (i,), strict=False)
            return
        # dict
        if op in ("setitem", "setattr", "delitem", "delattr", "pop"):
            self.detach_under(o, path + (a[0],), strict=False)
        elif op == "setdefault":
            pass
        elif op == "update":
            other, kw = a[0], (a[1] if len(a) > 1 else {})
            keys = list(dict(other or {}).keys()) + list(kw.keys())
            for k in keys:
                self.detach_under(o, path + (k,), strict=False)
        elif op == "popitem":
            self.detach_under(o, path)

    def snapshot(self):
        return repr((
            [model.canon_json(d) for d in self.disk],
            [None if b is None else model.canon_json(b) for b in self.buf],
            self.in_buf, self.changed_w, self.ext_after, self.disk_known, self.touched,
            self.obj_res, self.obj_depth, self.cls_depth, self.cap_stack, self.cap_default, self.ctx_stack, self.n_exits > 0, self.n_setcap,
            (self.session, self.ops_in_session, self.between_ops) if self.track_sessions else None,
            [(h["obj"], h["path"], h["kinds"], h["attached"]) for h in self.handles],
        ))


# --------------------------------------------------------------------------------------
# Implementation world
# --------------------------------------------------------------------------------------


class World:
    def __init__(self, cfg, resources=None):
        self.cfg = cfg
        self.klass = env.cls(cfg.clsname)
        if getattr(cfg, "options", {}).get("warm_siblings"):
            env.warm_siblings(cfg.clsname)
        self.threading_off = getattr(cfg, "options", {}).get("threading") is False
        if self.threading_off:
            self.klass.disable_multithreading()  # exercises the non-atomic in-place write path
        self.resources = resources or [env.resource_for(cfg.clsname, i) for i in cfg.initial]
        if getattr(cfg, "options", {}).get("relative_names"):
            # the library is given RELATIVE file names (the process works in the scratch directory); the harness keeps
            # reading the files by their absolute paths
            os.chdir(env.scratch_dir())
            for r in self.resources:
                r.relative = True
        self.objects = []
        self.obj_res = []
        self.handle_objs = []
        self.cls_ctx = []  # entered backend-wide context managers
        self.extra_res = []
        self.extra_snaps = []  # snapshot of each operand resource right after it was created
        for r in cfg.objects:
            self.add_object(r)

    def add_object(self, r):
        kw = {}
        if self.cfg.write_concern:
            kw["write_concern"] = True
        o = self.resources[r].make(self.cfg.clsname, **kw)
        self.objects.append(o)
        self.obj_res.append(r)
        self.handle_objs.append(o)
        return o

    FOREIGN = {"JSON": "JSONAttr", "JSONAttr": "JSON", "Buffered": "JSONAttr", "BufferedAttr": "Buffered",
               "MemoryBuffered": "BufferedAttr", "MemoryBufferedAttr": "JSON"}

    def mk_synced(self, value, foreign=False):
        """A synced operand of the same family (foreign=True: of a different one): a real collection bound to its own
        resource that already HOLDS the value (so that an operation which writes its operand is observable: see
        extra_snaps)."""
        c = self.cfg.clsname
        if foreign:
            c = env.ALL_FAMILIES[self.FOREIGN.get(env.family_of(c), "JSONAttr")][0]
        res = env.resource_for(c, copy.deepcopy(value))
        self.extra_res.append(res)
        self.extra_snaps.append(res.snapshot())
        k = env.kind_of(c)
        want = "dict" if isinstance(value, dict) else "list"
        if k != want:
            d, l = env.ALL_FAMILIES[env.family_of(c)]
            c = d if want == "dict" else l
        return res.make(c)

    def apply(self, ev):
        """-> outcome ('ok', value) | ('exc', e) | None"""
        t = ev[0]
        if t in ("op", "opx"):
            _, h, op, args = ev
            return model.impl_apply(self.handle_objs[h], op, args, self.mk_synced)
        if t == "fop":
            # a mutator whose save fails ONCE: the first os.replace made by library code raises ENOSPC
            _, h, op, args = ev
            import errno as _errno
            real = os.replace
            state = {"fired": False}

            def failing(src, dst, *a, **kw):
                f = sys._getframe(1)
                if not state["fired"] and f.f_code.co_filename.startswith(env.LIBDIR):
                    state["fired"] = True
                    try:
                        os.unlink(src)
                    except OSError:
                        pass
                    raise OSError(_errno.ENOSPC, os.strerror(_errno.ENOSPC), str(dst))
                return real(src, dst, *a, **kw)

            os.replace = failing
            try:
                return model.impl_apply(self.handle_objs[h], op, args, self.mk_synced)
            finally:
                os.replace = real
        if t == "nav":
            _, h, key = ev
            child = self.handle_objs[h][key]
            self.handle_objs.append(child)
            return None
        if t == "new":
            self.add_object(ev[1])
            return None
        if t == "ext":
            _, r, path, value = ev[:4]
            kw = {"older": True} if len(ev) > 4 and ev[4] == "older" else {}
            res = self.resources[r]
            if not path:
                res.ext_write(value, **kw)
            else:
                c = res.read()
                if value == "#DEL":
                    del get_at(c, path[:-1])[path[-1]]
                else:
                    get_at(c, path[:-1])[path[-1]] = copy.deepcopy(value)
                res.ext_write(c, **kw)
            return None
        if t == "construct":
            try:
                self.resources[ev[1]].make(self.cfg.clsname, data=model.resolve(ev[2], self.mk_synced))
            except Exception as e:  # noqa: BLE001
                return ("exc", e)
            return ("ok", None)
        try:
            if t == "setfilename":
                res_ = self.resources[ev[2]]
                self.objects[ev[1]].filename = res_.libname() if hasattr(res_, "libname") else res_.path
                self.obj_res[ev[1]] = ev[2]
            elif t == "enter":
                self.objects[ev[1]].buffered.__enter__()
            elif t == "exit":
                self.objects[ev[1]].buffered.__exit__(None, None, None)
            elif t == "enter_cls":
                cm = self.klass.buffer_backend() if ev[1] is None else self.klass.buffer_backend(ev[1])
                cm.__enter__()
                self.cls_ctx.append(cm)
            elif t == "exit_cls":
                self.cls_ctx.pop().__exit__(None, None, None)
            elif t == "setcap":
                self.klass.set_buffer_capacity(ev[1])
            else:
                raise ValueError(ev)
        except Exception as e:  # noqa: BLE001
            return ("exc", e)
        return ("ok", None)

    def destroy(self):
        for r in self.resources + self.extra_res:
            r.destroy()


# --------------------------------------------------------------------------------------
# One execution
# --------------------------------------------------------------------------------------


_NOSNAP = object()


class Result:
    def __init__(self):
        self.violations = []  # (kind, detail)
        self.digest = None
        self.ref = None
        self.outcome = None
        self.observed = None


def _exc_name_matches(expect, outcome):
    """Expect('exc', exc='MetadataError') style (library exception classes by name)."""
    tag, val = outcome
    if tag != "exc":
        return "expected %s, nothing raised" % expect.exc
    names = [c.__name__ for c in type(val).__mro__]
    if expect.exc not in names:
        return "expected %s, raised %s: %s" % (expect.exc, type(val).__name__, val)
    return None


def compare_disk(ref, world, r):
    """None if resource r matches the reference disk state, else a reason."""
    if not ref.disk_known[r]:
        return None
    actual = world.resources[r].read()
    want = ref.disk[r]
    if exact_eq(actual, want):
        return None
    # a mutator on a missing resource may or may not have created an empty one
    if ref.touched[r] and (want is ABSENT or want == ref.empty()) and (actual is ABSENT or actual == ref.empty()):
        if kind(actual) == kind(ref.empty()) or actual is ABSENT:
            return None
    return "resource %d holds %r, expected %r" % (r, actual, want)


def execute(cfg, history, oracles, hooks=None, keep_world=False, alphabet=None):
    """Replay `history` on a fresh world; check `oracles` on the last event.

    oracles: set of names among
       result    return value / exception class equals the reference
       resource  every resource equals the reference disk content after the event
       nowrite   while a resource is buffered under default capacity its file is not touched
       ctxerr    context events raise exactly when the reference says so
    hooks: object with optional methods after_event(run, ev, outcome, exp, info, last) -> list of
       (kind, detail) and probe(run) -> list of (kind, detail), digest_extra(run)
    """
    res = Result()
    ref = Ref(cfg)
    world = World(cfg)
    res.ref = ref
    run = RunState(cfg, ref, world)
    try:
        full = tuple(cfg.prefix) + tuple(history)
        for i, ev in enumerate(full):
            last = i == len(full) - 1
            snaps = None
            if last and "nowrite" in oracles:
                snaps = [(world.resources[r].snapshot() if ref.res_all_buffered(r) else _NOSNAP)
                         for r in range(len(world.resources))]
                was_default = ref.cap_default
            if hooks is not None and hasattr(hooks, "before_event"):
                hooks.before_event(run, ev, last)
            outcome = world.apply(ev)
            exp, info = ref.apply(ev)
            if info.get("follow_disk") is not None:
                r_ = info["follow_disk"]
                actual = world.resources[r_].read()
                if model.is_plain(actual):
                    if actual is ABSENT or kind(actual) == ref.rootkind:
                        ref.disk[r_] = actual
                ref.revalidate()
            if exp is not None and exp.mode == "popitem" and outcome and outcome[0] == "ok":
                # follow the implementation's choice
                item = outcome[1]
                if isinstance(item, tuple) and len(item) == 2 and item[0] in (info["node_before"] or {}):
                    _, h, _, _ = ev
                    ref.node(h).pop(item[0], None)
                    ref.detach_under(ref.handles[h]["obj"], ref.handles[h]["path"] + (item[0],), strict=False)
                    ref.revalidate()
            if last:
                res.outcome = outcome
                v = res.violations
                if ev[0] in ("op", "opx", "fop") and "result" in oracles:
                    why = check_result(exp, outcome, info.get("node_before"))
                    if why:
                        v.append(("result", "%r: %s" % (ev, why)))
                elif ev[0] == "construct" and ("result" in oracles or "reject" in oracles):
                    why = check_result(exp, outcome)
                    if why:
                        v.append(("reject" if exp.mode == "reject" else "result", "%r: %s" % (ev, why)))
                elif ev[0] == "op" and exp.mode == "reject" and "reject" in oracles:
                    why = check_result(exp, outcome)
                    if why:
                        v.append(("reject", "%r: %s" % (ev, why)))
                elif ev[0] in ("exit", "exit_cls", "enter", "enter_cls", "setcap", "setfilename") and "ctxerr" in oracles:
                    if exp is not None and exp.mode == "exc":
                        why = _exc_name_matches(exp, outcome)
                        if why:
                            v.append(("ctxerr", "%r: %s" % (ev, why)))
                        else:
                            why = _check_conflict_names(world, outcome[1], info["conflicts"])
                            if why:
                                v.append(("ctxerr-files", "%r: %s" % (ev, why)))
                    elif outcome is not None and outcome[0] == "exc":
                        v.append(("ctxerr", "%r raised %s: %s" % (ev, type(outcome[1]).__name__, outcome[1])))
                if "resource" in oracles:
                    for r in range(len(world.resources)):
                        why = compare_disk(ref, world, r)
                        if why:
                            v.append(("resource", "after %r: %s" % (ev, why)))
                if snaps is not None and was_default and ref.cap_default:
                    for r, s0 in enumerate(snaps):
                        if s0 is _NOSNAP or not ref.res_all_buffered(r):
                            continue  # some object on r left its outermost context: it may flush
                        if ev[0] == "ext" and ev[1] == r:
                            continue
                        now = world.resources[r].snapshot()
                        if now != s0:
                            v.append(("nowrite", "%r touched resource %d while buffered: %r -> %r"
                                      % (ev, r, _short(s0), _short(now))))
                if hooks is not None and hasattr(hooks, "after_event"):
                    v.extend(hooks.after_event(run, ev, outcome, exp, info, True) or [])
            else:
                if hooks is not None and hasattr(hooks, "after_event"):
                    hooks.after_event(run, ev, outcome, exp, info, False)
                # replay divergence guard: a prefix that used to be clean must still be clean
                if ev[0] == "op" and exp.mode == "exc" and outcome[0] != "exc":
                    pass
        res.digest = canon_mod.digest(world) + "|" + ref.snapshot()
        if hooks is not None and hasattr(hooks, "digest_extra"):
            res.digest += "|" + repr(hooks.digest_extra(run))
        if alphabet is not None:
            res.enabled = alphabet(ref)  # BEFORE the destructive probe
        if hooks is not None and hasattr(hooks, "probe"):
            try:
                res.violations.extend(hooks.probe(run) or [])
            except Exception as e:  # noqa: BLE001 - the probe only calls the library's public API
                res.violations.append(("probe-exception", "after %r a follow-up read through the public API raised %s: %s"
                                       % (full[-1] if full else None, type(e).__name__, str(e)[:200])))
    finally:
        if keep_world:
            res.world = world
        else:
            _teardown(world)
    return res


def _short(s):
    if s is None:
        return None
    return s[:3] + (s[3][:40] if isinstance(s[3], bytes) else s[3],) if len(s) == 4 else s


def _check_conflict_names(world, exc, conflicts):
    paths = {getattr(world.resources[r], "path", r) for r in conflicts}
    files = getattr(exc, "files", None)
    if files is not None:
        if set(files) != paths:
            return "BufferedError names %r, expected exactly %r" % (sorted(files), sorted(paths))
        return None
    fn = getattr(exc, "filename", None)
    if fn is not None and fn not in paths:
        return "MetadataError names %r, expected %r" % (fn, sorted(paths))
    return None


class RunState:
    def __init__(self, cfg, ref, world):
        self.cfg = cfg
        self.ref = ref
        self.world = world
        self.scratch = {}


def _teardown(world):
    """Leave every context (best effort), then remove the files."""
    try:
        k = world.klass
        for o in world.objects:
            b = getattr(o, "buffered", None)
            n = 0
            while b is not None and b and n < 10:
                n += 1
                try:
                    b.__exit__(None, None, None)
                except Exception:  # noqa: BLE001
                    pass
        while world.cls_ctx:
            try:
                world.cls_ctx.pop().__exit__(None, None, None)
            except Exception:  # noqa: BLE001
                pass
        # registries of live collections kept at class level (whatever they are called): forget this world's
        # objects so that they cannot be flushed during a later execution in the same process
        ids = {id(o) for o in list(world.objects) + [h for h in world.handle_objs if h is not None]}

        def forget(val, depth=0):
            """Remove this world's collections (and their raw ids) from a class-level container, whatever its shape."""
            if isinstance(val, dict):
                for key in [kk for kk, vv in val.items() if env.is_synced(vv) or (type(kk) is int and kk in ids)]:
                    val.pop(key, None)
            elif isinstance(val, list):
                val[:] = [x for x in val if not env.is_synced(x) and not (type(x) is int and x in ids)]
            elif isinstance(val, set):
                for x in [x for x in val if (type(x) is int and x in ids) or env.is_synced(x)]:
                    val.discard(x)
            elif depth < 2 and not isinstance(val, (type, str, bytes, int, float, tuple, frozenset)) and val is not None \
                    and type(val).__module__.startswith("synced_collections") and not env.is_synced(val):
                for v in list(getattr(val, "__dict__", {}).values()):
                    forget(v, depth + 1)
                for c in type(val).__mro__:
                    sl = c.__dict__.get("__slots__", ())
                    for nm in ([sl] if isinstance(sl, str) else sl):
                        if hasattr(val, nm):
                            forget(getattr(val, nm), depth + 1)

        for base in k.__mro__:
            for name, val in list(vars(base).items()):
                if not name.startswith("__"):
                    forget(val)
        dc = env.default_capacity(world.cfg.clsname)
        if dc is not None and k.get_buffer_capacity() != dc:
            try:
                k.set_buffer_capacity(dc)
            except Exception:  # noqa: BLE001
                pass
    finally:
        if getattr(world, "threading_off", False):
            world.klass.enable_multithreading()
        world.destroy()


def class_pristine(clsname):
    """Observable class-level state that must hold whenever no context is active."""
    k = env.cls(clsname)
    out = []
    if not env.is_buffered_class(clsname):
        return out
    if k.get_current_buffer_size() != 0:
        out.append("buffer size %r != 0 with no context active" % k.get_current_buffer_size())
    if k.backend_is_buffered():
        out.append("backend_is_buffered() true with no context active")
    return out


# --------------------------------------------------------------------------------------
# Breadth-first search
# --------------------------------------------------------------------------------------


class Stats:
    def __init__(self):
        self.states = 0
        self.transitions = 0
        self.max_depth = 0
        self.merged = 0
        self.by_kind = collections.Counter()
        self.outcomes = collections.Counter()
        self.violations = []  # dict(kind, detail, history, cfg)
        self.samples = []
        self.capped = False
        self.nontrivial = set()

    def merge(self, other):
        self.states += other.states
        self.transitions += other.transitions
        self.max_depth = max(self.max_depth, other.max_depth)
        self.merged += other.merged
        self.by_kind.update(other.by_kind)
        self.outcomes.update(other.outcomes)
        self.violations.extend(other.violations)
        self.samples.extend(other.samples[:2])
        self.capped = self.capped or other.capped
        self.nontrivial |= other.nontrivial


def bfs(cfg, alphabet, depth, oracles, hooks=None, executor=None, max_transitions=None, merge=True,
        stop_on_violation_per_kind=25, part2=None):
    """Explore all histories over `alphabet(ref)` up to `depth` events, merging equal states.

    `executor(cfg, history)` -> Result-like dict is how a history is run (in an isolated child
    by default: see isolate.py); here it defaults to in-process execution.

    `part2=(i, n)`: two-level partition of one BFS over n tasks.  Every task executes the (few)
    histories of length 1 - the search is deterministic, so all tasks see the same merged
    level-1 frontier - and numbers the histories of length 2 in BFS order; task i explores only
    those numbered i mod n (and everything below them).  Level-1 transitions are counted and
    reported by task 0 only, so the union of the tasks is exactly one BFS.
    """
    st = Stats()
    if executor is None:
        def executor(c, h):
            r = execute(c, h, oracles, hooks, alphabet=alphabet)
            return {"violations": r.violations, "digest": r.digest,
                    "enabled": r.enabled, "outcome": _outcome_key(r.outcome)}
    root = executor(cfg, ())
    seen = {root["digest"]}
    st.states = 1
    frontier = collections.deque([((), root["enabled"])])
    per_kind = collections.Counter()
    n_level2 = 0
    while frontier:
        hist, enabled = frontier.popleft()
        for ev in enabled:
            if max_transitions is not None and st.transitions >= max_transitions:
                st.capped = True
                return st
            h2 = hist + (ev,)
            if part2 is not None and len(h2) <= 2:
                if len(h2) == 2:
                    n_level2 += 1
                    if (n_level2 - 1) % part2[1] != part2[0]:
                        continue
                elif part2[0] != 0:
                    # shared level: executed to learn the frontier, counted and judged by task 0
                    r = executor(cfg, h2)
                    if r["violations"] or r["digest"] in seen:
                        continue
                    seen.add(r["digest"])
                    if len(h2) < depth:
                        frontier.append((h2, r["enabled"]))
                    continue
            r = executor(cfg, h2)
            st.transitions += 1
            st.by_kind[ev[0] if ev[0] != "op" else "op:" + ev[2]] += 1
            st.outcomes[(ev[0] if ev[0] != "op" else ev[2], r["outcome"])] += 1
            st.max_depth = max(st.max_depth, len(h2))
            if len(st.samples) < 3:
                st.samples.append([repr(e) for e in h2])
            elif len(h2) > len(st.samples[0]):
                st.samples[0] = [repr(e) for e in h2]
                st.samples.sort(key=len)
            if r["violations"]:
                for k, d in r["violations"]:
                    per_kind[k] += 1
                    if per_kind[k] <= stop_on_violation_per_kind:
                        st.violations.append({"kind": k, "detail": d, "history": h2, "cfg": cfg})
                continue  # futures of a violating history are noise
            if r["digest"] in seen:
                st.merged += 1
                continue
            seen.add(r["digest"])
            st.nontrivial.add(r["digest"])
            st.states += 1
            if len(h2) < depth:
                frontier.append((h2, r["enabled"]))
    return st


def _outcome_key(outcome):
    if outcome is None:
        return "-"
    tag, val = outcome
    if tag == "exc":
        return "raise " + type(val).__name__
    return "ok"
