"""Reference model: built-in dict/list on plain JSON data, and exact comparison helpers.

Deliberately boring.  `ref_apply` performs one operation on the plain container found at a
path and says what the implementation is expected to return / raise (C03's documented
deviations are the only adjustments).  `impl_apply` performs the same operation on a live
synced object and normalises what came back.
"""
import ast
import copy
import json
import math

from .env import ABSENT
from .env import is_synced as env_is_synced

# --------------------------------------------------------------------------------------
# Plain data helpers
# --------------------------------------------------------------------------------------


def kind(v):
    if isinstance(v, dict):
        return "dict"
    if isinstance(v, list):
        return "list"
    if v is None:
        return "null"
    return "scalar"


def exact_eq(a, b):
    """Equality with exact JSON types at every leaf (bool != int != float, sign of zero)."""
    if a is ABSENT or b is ABSENT:
        return a is b
    if isinstance(a, dict):
        if type(b) is not dict or type(a) is not dict or a.keys() != b.keys():
            return False
        return all(exact_eq(v, b[k]) for k, v in a.items())
    if isinstance(a, (list, tuple)):
        if type(a) is not type(b) or len(a) != len(b):
            return False
        return all(exact_eq(x, y) for x, y in zip(a, b))
    if type(a) is not type(b):
        return False
    if isinstance(a, float):
        if math.isnan(a) or math.isnan(b):
            return math.isnan(a) and math.isnan(b)
        return a == b and math.copysign(1.0, a) == math.copysign(1.0, b)
    return a == b


def twin(v):
    """The same content with every scalar leaf replaced by a value that compares `==` to it but has a
    different JSON type (or sign of zero): 0 <-> False, 1 <-> True, other integral numbers int <-> float,
    0.0 <-> -0.0.  Built-in dict/list treat `x[k] = twin` as a change; so must every collection."""
    if isinstance(v, dict):
        return {k: twin(x) for k, x in v.items()}
    if isinstance(v, (list, tuple)):
        return [twin(x) for x in v]
    if isinstance(v, bool):
        return int(v)
    if isinstance(v, int):
        if v in (0, 1):
            return bool(v)
        return float(v) if abs(v) < 2 ** 53 else v
    if isinstance(v, float):
        if v == 0:
            return -v
        return int(v) if v.is_integer() and abs(v) < 2 ** 53 else v
    return v


def shifted(v):
    """The same shape with every scalar leaf replaced by a DIFFERENT value of the SAME type (int + 7, float + 1.0,
    str + 'x', bool flipped; None stays): what a merge sees when only values changed."""
    if isinstance(v, dict):
        return {k: shifted(x) for k, x in v.items()}
    if isinstance(v, (list, tuple)):
        return [shifted(x) for x in v]
    if isinstance(v, bool):
        return not v
    if isinstance(v, int):
        return v + 7
    if isinstance(v, float):
        return v + 1.0 if v == v and abs(v) < 1e300 else 1.0
    if isinstance(v, str):
        return v + "x"
    return v


def is_plain(v):
    """Built-in JSON data all the way down (exact built-in types)."""
    if type(v) is dict:
        return all(type(k) is str and is_plain(x) for k, x in v.items())
    if type(v) is list:
        return all(is_plain(x) for x in v)
    return v is None or type(v) in (str, int, float, bool)


def canon_json(v):
    """Order-insensitive, type-exact canonical string of plain data."""
    if v is ABSENT:
        return "ABSENT"
    if isinstance(v, dict):
        return "{" + ",".join(json.dumps(k) + ":" + canon_json(v[k]) for k in sorted(v)) + "}"
    if isinstance(v, (list, tuple)):
        return "[" + ",".join(canon_json(x) for x in v) + "]"
    if isinstance(v, bool):
        return "true" if v else "false"
    if isinstance(v, float):
        return "f" + repr(v)
    if isinstance(v, int):
        return "i" + repr(v)
    if v is None:
        return "null"
    if isinstance(v, str):
        return json.dumps(v)
    return "?" + type(v).__name__ + ":" + repr(v)


def get_at(content, path):
    node = content
    for p in path:
        node = node[p]
    return node


def path_ok(content, path, kinds):
    """Does `path` exist in content with the recorded container kind at every step?"""
    node = content
    if node is ABSENT:
        return False
    for p, k in zip(path, kinds):
        try:
            if isinstance(node, dict):
                if not isinstance(p, str):
                    return False
                node = node[p]
            elif isinstance(node, list):
                if not isinstance(p, int) or isinstance(p, bool) or not 0 <= p < len(node):
                    return False
                node = node[p]
            else:
                return False
        except (KeyError, IndexError):
            return False
        if kind(node) != k:
            return False
    return True


def to_plain(x):
    """Convert what the implementation returned into plain data, without refreshing it."""
    if env_is_synced(x):
        tb = getattr(x, "_to_base", None)  # non-loading conversion when the implementation has one
        if tb is not None and callable(tb):
            try:
                return to_plain(tb())
            except TypeError:
                pass
        # second choice, still non-loading and public: the library's JSON encoder
        try:
            from synced_collections.utils import SyncedCollectionJSONEncoder

            return json.loads(json.dumps(x, cls=SyncedCollectionJSONEncoder))
        except Exception:  # noqa: BLE001
            pass
        return to_plain(x())  # public conversion (reloads)
    if isinstance(x, dict):
        return {k: to_plain(v) for k, v in x.items()}
    if isinstance(x, list):
        return [to_plain(v) for v in x]
    if isinstance(x, tuple):
        return tuple(to_plain(v) for v in x)
    return x


# --------------------------------------------------------------------------------------
# Argument markers (events must be literal-evaluable; special values are spelled as markers)
# --------------------------------------------------------------------------------------


class Unserializable:
    """A value no validator accepts."""

    def __repr__(self):
        return "<Unserializable>"


class FrozenKeyMapping(dict):
    pass


def resolve(arg, mk_synced=None):
    """Turn an event argument into the real Python object handed to the implementation."""
    if isinstance(arg, tuple) and arg and isinstance(arg[0], str) and arg[0].startswith("#"):
        tag = arg[0]
        if tag == "#slice":
            return slice(arg[1], arg[2], arg[3])
        if tag == "#tuple":
            return tuple(resolve(a, mk_synced) for a in arg[1])
        if tag == "#bytes":
            return bytes(arg[1])
        if tag == "#iter":
            return iter([resolve(a, mk_synced) for a in arg[1]])
        if tag == "#synced":
            return mk_synced(resolve(arg[1], mk_synced))
        if tag == "#foreign":  # a synced collection of ANOTHER class family, bound to its own resource
            return mk_synced(resolve(arg[1], mk_synced), foreign=True)
        if tag == "#bad":
            return bad_value(arg[1])
        if tag == "#dictk":  # dict with arbitrary (possibly non-string) keys: list of pairs
            return {resolve(k, mk_synced): resolve(v, mk_synced) for k, v in arg[1]}
        raise ValueError("unknown marker %r" % (arg,))
    if isinstance(arg, dict):
        return {k: resolve(v, mk_synced) for k, v in arg.items()}
    if isinstance(arg, list):
        return [resolve(v, mk_synced) for v in arg]
    return arg


def ref_value(arg):
    """The plain JSON data an argument denotes once stored."""
    if isinstance(arg, tuple) and arg and isinstance(arg[0], str) and arg[0].startswith("#"):
        tag = arg[0]
        if tag == "#slice":
            return slice(arg[1], arg[2], arg[3])
        if tag in ("#tuple", "#iter"):
            return [ref_value(a) for a in arg[1]]
        if tag == "#bytes":
            return list(arg[1])
        if tag in ("#synced", "#foreign"):
            return ref_value(arg[1])
        if tag == "#dictk":
            def hk(k):
                k = ref_value(k)
                return tuple(k) if isinstance(k, list) else k
            return {hk(k): ref_value(v) for k, v in arg[1]}
        if tag == "#bad":
            return arg
        raise ValueError(arg)
    if isinstance(arg, dict):
        return {k: ref_value(v) for k, v in arg.items()}
    if isinstance(arg, list):
        return [ref_value(v) for v in arg]
    return arg


def bad_value(name):
    if name == "object":
        return Unserializable()
    if name == "set":
        return {1, 2}
    if name == "complex":
        return 1 + 2j
    if name == "class":
        return Unserializable
    if name == "func":
        return len
    if name == "instance":
        return _Custom()
    if name == "mapping-badkey":
        return _BadKeyMapping()
    raise ValueError(name)


class _Custom:
    def __init__(self):
        self.x = 1


import collections.abc as _abc


class _BadKeyMapping(_abc.Mapping):
    """A user-defined Mapping whose only key is not a string."""

    def __getitem__(self, k):
        if k == 1:
            return 0
        raise KeyError(k)

    def __iter__(self):
        return iter([1])

    def __len__(self):
        return 1


# --------------------------------------------------------------------------------------
# Operation table
# --------------------------------------------------------------------------------------

# name -> (applies to, mutator?)
OPS = {
    # reads, both kinds
    "getitem": ("both", False),
    "len": ("both", False),
    "iter": ("both", False),
    "contains": ("both", False),
    "eq": ("both", False),
    "ne": ("both", False),
    "call": ("both", False),
    "repr": ("both", False),
    "str": ("both", False),
    # dict reads
    "get": ("dict", False),
    "keys": ("dict", False),
    "values": ("dict", False),
    "items": ("dict", False),
    # list reads
    "reversed": ("list", False),
    "index": ("list", False),
    "count": ("list", False),
    "lt": ("list", False),
    "le": ("list", False),
    "gt": ("list", False),
    "ge": ("list", False),
    # mutators, both
    "setitem": ("both", True),
    "delitem": ("both", True),
    "pop": ("both", True),
    "clear": ("both", True),
    "reset": ("both", True),
    # dict mutators
    "popitem": ("dict", True),
    "setdefault": ("dict", True),
    "update": ("dict", True),  # args: (other_or_None, kwargs_dict)
    # list mutators
    "insert": ("list", True),
    "append": ("list", True),
    "extend": ("list", True),
    "iadd": ("list", True),
    "remove": ("list", True),
    "reverse": ("list", True),
    "setpath": ("both", True),  # navigate afresh then assign: obj[p0][p1]...[key] = value
    # attribute syntax (attr dict families)
    "getattr": ("dict", False),
    "setattr": ("dict", True),
    "delattr": ("dict", True),
}


def is_mutator(op):
    return OPS[op][1]


def impl_call(obj, op, args, mk_synced=None):
    """Perform `op` on the live object.  Returns the raw result (may raise)."""
    a = [resolve(x, mk_synced) for x in args]
    if op == "getitem":
        return obj[a[0]]
    if op == "len":
        return len(obj)
    if op == "iter":
        return list(iter(obj))
    if op == "contains":
        return a[0] in obj
    if op == "eq":
        return obj == a[0]
    if op == "ne":
        return obj != a[0]
    if op == "call":
        return obj()
    if op == "repr":
        return repr(obj)
    if op == "str":
        return str(obj)
    if op == "get":
        return obj.get(*a)
    if op == "keys":
        return list(obj.keys())
    if op == "values":
        return list(obj.values())
    if op == "items":
        return list(obj.items())
    if op == "reversed":
        return list(reversed(obj))
    if op == "index":
        return obj.index(*a)
    if op == "count":
        return obj.count(*a)
    if op == "lt":
        return obj < a[0]
    if op == "le":
        return obj <= a[0]
    if op == "gt":
        return obj > a[0]
    if op == "ge":
        return obj >= a[0]
    if op == "setitem":
        obj[a[0]] = a[1]
        return None
    if op == "delitem":
        del obj[a[0]]
        return None
    if op == "pop":
        return obj.pop(*a)
    if op == "clear":
        return obj.clear()
    if op == "reset":
        return obj.reset(a[0])
    if op == "popitem":
        return obj.popitem()
    if op == "setdefault":
        return obj.setdefault(*a)
    if op == "update":
        other, kw = a[0], (a[1] if len(a) > 1 else {})
        if other is None:
            return obj.update(**kw)
        return obj.update(other, **kw)
    if op == "insert":
        return obj.insert(a[0], a[1])
    if op == "append":
        return obj.append(a[0])
    if op == "extend":
        return obj.extend(a[0])
    if op == "iadd":
        r = obj.__iadd__(a[0])
        return "#self" if r is obj else r
    if op == "remove":
        return obj.remove(a[0])
    if op == "reverse":
        return obj.reverse()
    if op == "setpath":
        o = obj
        for p_ in a[0]:
            o = o[p_]
        o[a[1]] = a[2]
        return None
    if op == "getattr":
        return getattr(obj, a[0])
    if op == "setattr":
        setattr(obj, a[0], a[1])
        return None
    if op == "delattr":
        delattr(obj, a[0])
        return None
    raise ValueError(op)


def impl_apply(obj, op, args, mk_synced=None):
    """-> ('ok', plain result) | ('exc', exception instance)"""
    try:
        r = impl_call(obj, op, args, mk_synced)
    except Exception as e:  # noqa: BLE001 - the class is the observation
        return ("exc", e)
    return ("ok", to_plain(r))


class Expect:
    """What the reference says an operation must do."""

    __slots__ = ("mode", "value", "exc")

    def __init__(self, mode, value=None, exc=None):
        self.mode = mode  # ok | unordered | literal | exc | popitem | reject
        self.value = value
        self.exc = exc

    def __repr__(self):
        if self.mode == "exc":
            return "raise %s" % (getattr(self.exc, "__name__", self.exc),)
        if self.mode == "reject":
            return "raise TypeError/ValueError"
        return "%s %r" % (self.mode, self.value)


def _ok(v):
    return Expect("ok", copy.deepcopy(v))


def _exc(e):
    return Expect("exc", exc=type(e))


def _find_bad(v):
    """Does the (reference form of the) argument contain a '#bad' marker or a non-str key?"""
    if isinstance(v, tuple) and v and v[0] == "#bad":
        return True
    if isinstance(v, dict):
        return any((not isinstance(k, str)) or _find_bad(x) for k, x in v.items())
    if isinstance(v, list):
        return any(_find_bad(x) for x in v)
    if isinstance(v, (set, complex)):
        return True
    return False


def ref_apply(node, op, args, dotted_forbidden=False):
    """Apply `op` to the plain container `node` in place; return an Expect.

    `node` is a dict or list inside the reference content.  Exceptions raised by the
    built-in become Expect('exc').  Arguments denoting forbidden data give Expect('reject')
    and leave node unchanged.
    """
    a = [ref_value(x) for x in args]
    k = "dict" if isinstance(node, dict) else "list"
    applies = OPS[op][0]
    assert applies in ("both", k), (op, k)

    def has_dot(v):
        if isinstance(v, dict):
            return any(("." in kk if isinstance(kk, str) else False) or has_dot(x) for kk, x in v.items())
        if isinstance(v, list):
            return any(has_dot(x) for x in v)
        return False

    def forbidden(v):
        return _find_bad(v) or (dotted_forbidden and has_dot(v))

    try:
        # ---------------- reads
        if op == "getitem":
            return _ok(node[a[0]])
        if op == "len":
            return _ok(len(node))
        if op == "iter":
            return Expect("unordered", list(node)) if k == "dict" else _ok(list(node))
        if op == "contains":
            return _ok(a[0] in node)
        if op == "eq":
            return _ok(node == a[0])
        if op == "ne":
            return _ok(node != a[0])
        if op == "call":
            return _ok(node)
        if op in ("repr", "str"):
            return Expect("literal", copy.deepcopy(node))
        if op == "get":
            return _ok(node.get(*a))
        if op == "keys":
            return Expect("unordered", list(node.keys()))
        if op == "values":
            return Expect("unordered", copy.deepcopy(list(node.values())))
        if op == "items":
            return Expect("unordered", copy.deepcopy([tuple(i) for i in node.items()]))
        if op == "reversed":
            return _ok(list(reversed(node)))
        if op == "index":
            return _ok(node.index(*a))
        if op == "count":
            return _ok(node.count(*a))
        if op == "lt":
            return _ok(node < a[0])
        if op == "le":
            return _ok(node <= a[0])
        if op == "gt":
            return _ok(node > a[0])
        if op == "ge":
            return _ok(node >= a[0])
        if op == "getattr":
            try:
                return _ok(node[a[0]])
            except KeyError:
                return Expect("exc", exc=AttributeError)
        # ---------------- mutators
        if op in ("setitem", "setattr"):
            if k == "dict":
                if forbidden({a[0]: a[1]}) if _hashable(a[0]) else True:
                    return Expect("reject")
                node[a[0]] = copy.deepcopy(a[1])
            else:
                if forbidden(a[1]):
                    return Expect("reject")
                node[a[0]] = copy.deepcopy(a[1])
            return _ok(None)
        if op == "delitem":
            del node[a[0]]
            return _ok(None)
        if op == "delattr":
            try:
                del node[a[0]]
            except KeyError:
                return Expect("exc", exc=AttributeError)
            return _ok(None)
        if op == "pop":
            if k == "dict":
                if len(a) == 1:
                    return _ok(node.pop(a[0], None))  # documented deviation
                return _ok(node.pop(a[0], a[1]))
            return _ok(node.pop(*a))
        if op == "clear":
            node.clear()
            return _ok(None)
        if op == "reset":
            want = dict if k == "dict" else list
            if not isinstance(a[0], want):
                return Expect("exc", exc=ValueError)
            if forbidden(a[0]):
                return Expect("reject")
            new = copy.deepcopy(a[0])
            node.clear()
            if k == "dict":
                node.update(new)
            else:
                node.extend(new)
            return _ok(None)
        if op == "popitem":
            if not node:
                return Expect("exc", exc=KeyError)
            return Expect("popitem")
        if op == "setdefault":
            if a[0] in node:
                return _ok(node[a[0]])
            d = a[1] if len(a) > 1 else None
            if forbidden({a[0]: d}):
                return Expect("reject")
            node[a[0]] = copy.deepcopy(d)
            return _ok(node[a[0]])
        if op == "update":
            other, kw = a[0], (a[1] if len(a) > 1 else {})
            tmp = {}
            if other is not None:
                tmp.update(other)  # raises like dict.update for malformed input
            tmp.update(kw)
            if forbidden(tmp):
                return Expect("reject")
            node.update(copy.deepcopy(tmp))
            return _ok(None)
        if op == "insert":
            if forbidden(a[1]):
                return Expect("reject")
            node.insert(a[0], copy.deepcopy(a[1]))
            return _ok(None)
        if op == "append":
            if forbidden(a[0]):
                return Expect("reject")
            node.append(copy.deepcopy(a[0]))
            return _ok(None)
        if op in ("extend", "iadd"):
            items = list(a[0])
            if forbidden(items):
                return Expect("reject")
            node.extend(copy.deepcopy(items))
            return _ok("#self" if op == "iadd" else None)
        if op == "remove":
            node.remove(a[0])
            return _ok(None)
        if op == "reverse":
            node.reverse()
            return _ok(None)
        if op == "setpath":
            if forbidden(a[2]):
                return Expect("reject")
            n2 = node
            for p_ in a[0]:
                n2 = n2[p_]
            n2[a[1]] = copy.deepcopy(a[2])
            return _ok(None)
    except Exception as e:  # noqa: BLE001
        return _exc(e)
    raise ValueError(op)


def _hashable(x):
    try:
        hash(x)
    except TypeError:
        return False
    return True


def _unordered_eq(got, want):
    if not isinstance(got, list) or len(got) != len(want):
        return False
    return sorted(canon_json(x) for x in got) == sorted(canon_json(x) for x in want)


def check_result(expect, outcome, node_before=None):
    """Compare an implementation outcome with an Expect.  Returns None or a reason string.

    For mode 'popitem' the caller passes the container *before* the call; the returned
    item must be one of its items (the caller then removes it from the reference)."""
    tag, val = outcome
    if expect.mode == "exc":
        if tag != "exc":
            return "expected %s, returned %r" % (expect.exc.__name__, val)
        if not isinstance(val, expect.exc):
            return "expected %s, raised %s: %s" % (expect.exc.__name__, type(val).__name__, val)
        return None
    if expect.mode == "reject":
        if tag != "exc":
            return "forbidden data accepted (returned %r)" % (val,)
        if not isinstance(val, (TypeError, ValueError)):
            return "forbidden data raised %s, not a TypeError/ValueError" % type(val).__name__
        return None
    if tag == "exc":
        return "unexpected %s: %s" % (type(val).__name__, val)
    if expect.mode == "ok":
        if not exact_eq(val, expect.value):
            return "returned %r, expected %r" % (val, expect.value)
        return None
    if expect.mode == "unordered":
        if not _unordered_eq(val, expect.value):
            return "returned %r, expected (any order) %r" % (val, expect.value)
        return None
    if expect.mode == "literal":
        try:
            lit = ast.literal_eval(val)
        except Exception:  # noqa: BLE001
            return "repr/str %r is not a literal" % (val,)
        if not exact_eq(lit, expect.value):
            return "repr/str gives %r, expected %r" % (lit, expect.value)
        return None
    if expect.mode == "popitem":
        if not (isinstance(val, tuple) and len(val) == 2 and isinstance(val[0], str)):
            return "popitem returned %r" % (val,)
        if val[0] not in node_before or not exact_eq(val[1], node_before[val[0]]):
            return "popitem returned %r which is not an item of %r" % (val, node_before)
        return None
    raise ValueError(expect.mode)
