#!/bin/bash
# usage: tools_evalmut.sh <mutant dir> <check id> [more check ids]   (harness-side helper, not a registered command)
# 1. confirm in a scratch worktree: patch applies, suite passes, demo fails with / passes without the change
# 2. apply to /repo, run the given checks (quick), undo
set -u
M=$1; shift
WT=/tmp/wt/eval_$$
git -C /repo worktree add -q --detach $WT HEAD || exit 9
cd $WT
if ! git apply $M/patch.diff; then echo "PATCH-DOES-NOT-APPLY"; git -C /repo worktree remove --force $WT; exit 8; fi
T=$(/venv/bin/python -m pytest -q -p no:cacheprovider -x 2>&1 | tail -1)
echo "tests-with-change: $T"
cp $M/demo.py $WT/demo_mut.py
/venv/bin/python demo_mut.py > /tmp/demo_with.$$ 2>&1; DW=$?
git checkout -q -- . ; 
/venv/bin/python demo_mut.py > /tmp/demo_without.$$ 2>&1; DWO=$?
echo "demo-with-change: exit=$DW  demo-without-change: exit=$DWO"
cd /; git -C /repo worktree remove --force $WT
rm -f /tmp/demo_with.$$ /tmp/demo_without.$$
if [ -n "$(git -C /repo status --porcelain)" ]; then echo "REPO-NOT-CLEAN"; exit 7; fi
git -C /repo apply $M/patch.diff || { echo "cannot apply to /repo"; exit 6; }
cd /verif
for c in "$@"; do
  VERIF_DUMP=/tmp/evalmut_$c.txt ./run check $c quick > /tmp/evalmut_$c.log 2>&1
  echo "check $c exit=$? viol=$(grep -c '^VIOLATION' /tmp/evalmut_$c.log) :: $(tail -1 /tmp/evalmut_$c.log | cut -c1-160)"
  head -3 /tmp/evalmut_$c.txt 2>/dev/null | cut -c1-260
done
git -C /repo checkout -- .
rm -rf /verif/replays/C*
