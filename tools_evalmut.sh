#!/bin/bash
# usage: tools_evalmut.sh <mutant dir> <check id> [more check ids]   (harness-side helper, not a registered command)
# 1. confirm in a scratch worktree: patch applies, suite passes, demo fails with / passes without the change
# 2. run the given checks (quick) against the patched worktree (VERIF_REPO), leaving /repo untouched
# Output is printed and also written to <mutant dir>/eval.out.  Runs from wherever this script lives
# (a `vp run` snapshot of /verif works; it then needs VERIF_DEPS=/verif/.deps).
set -u
HERE=$(cd "$(dirname "$0")" && pwd)
M=$(cd "$1" && pwd); shift
WT=/tmp/wt/eval_$$
OUT=$M/eval.out
{
BASE=${BASE:-$(cat $M/BASE 2>/dev/null || echo HEAD)}
git -C /repo worktree add -q --detach $WT $BASE || exit 9
echo "base: $BASE"
cd $WT
cp $M/demo.py $WT/demo_mut.py
timeout 600 /venv/bin/python demo_mut.py > /tmp/demo_without.$$ 2>&1; DWO=$?
if ! git apply $M/patch.diff; then echo "PATCH-DOES-NOT-APPLY"; cd /; git -C /repo worktree remove --force $WT; exit 8; fi
T=$(/venv/bin/python -m pytest -q -p no:cacheprovider -x --timeout=600 2>&1 | tail -1)
echo "tests-with-change: $T"
timeout 600 /venv/bin/python demo_mut.py > /tmp/demo_with.$$ 2>&1; DW=$?
echo "demo-with-change: exit=$DW  demo-without-change: exit=$DWO"
rm -f demo_mut.py /tmp/demo_with.$$ /tmp/demo_without.$$
cd $HERE
for c in "$@"; do
  VERIF_REPO=$WT VERIF_DUMP=/tmp/evalmut_$$_$c.txt ./run check $c ${TIER:-quick} > /tmp/evalmut_$$_$c.log 2>&1
  echo "check $c exit=$? viol=$(grep -c '^VIOLATION' /tmp/evalmut_$$_$c.log) :: $(grep -v '^EXPLORER' /tmp/evalmut_$$_$c.log | tail -1 | cut -c1-160)"
  head -3 /tmp/evalmut_$$_$c.txt 2>/dev/null | cut -c1-260
  grep EXPLORER-ERROR /tmp/evalmut_$$_$c.log | head -2 | cut -c1-300
  rm -f /tmp/evalmut_$$_$c.txt /tmp/evalmut_$$_$c.log
done
cd /; git -C /repo worktree remove --force $WT
} 2>&1 | tee $OUT
