"""Stub of the `bson` package, used by the verification harness ONLY when the real
package is not installed.  It provides just what collection_mongodb.py touches:
`bson.errors.InvalidDocument`."""
from . import errors  # noqa: F401
