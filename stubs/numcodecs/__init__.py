"""Stub of `numcodecs` (harness only, when the real one is missing): a JSON codec."""
import json as _json


class JSON:
    codec_id = "json2"

    def encode(self, obj):
        return _json.dumps(obj).encode()

    def decode(self, blob):
        return _json.loads(blob)
